import z3, time
Str = z3.StringSort(); V = z3.DeclareSort('V')
def prove(name, hyps, goal, to=30000):
    s = z3.Solver(); s.set('timeout', to); s.add(*hyps); s.add(z3.Not(goal)); t0=time.time(); r=s.check()
    print(name, 'PROVED' if r==z3.unsat else r, f'{time.time()-t0:.2f}s')
    if r==z3.sat:
        m=s.model(); print('   model:', {str(d): m[d] for d in m.decls() if d.arity()==0})
    return r
ns, k, nk = z3.Strings('ns k nk'); v = z3.Const('v', V)
# dict views
dom0 = z3.Function('dom0', Str, z3.BoolSort()); val0 = z3.Function('val0', Str, V)   # res before
dom1 = z3.Function('dom1', Str, z3.BoolSort()); val1 = z3.Function('val1', Str, V)   # res after
Pd = z3.Function('Pd', Str, z3.BoolSort()); data = z3.Function('data', Str, V); inData = z3.Function('inData', Str, z3.BoolSort())
Pd1 = z3.Function('Pd1', Str, z3.BoolSort())
q = z3.String('q')
dot = z3.StringVal('.')
def sel(key): return z3.PrefixOf(z3.Concat(ns, dot), key)          # spec: belongs to namespace
def newkey(key): return z3.SubString(key, z3.Length(ns)+1, z3.Length(key))
def Inv(dom, val, P):
    return z3.And(z3.ForAll([nk], dom(nk) == z3.Exists([q], z3.And(P(q), sel(q), newkey(q)==nk))),
                  z3.ForAll([q], z3.Implies(z3.And(P(q), sel(q)), val(newkey(q)) == data(q))))
# code (unfixed): if k.startswith(ns): res[k[len(ns)+1:]] = v
code_cond = z3.PrefixOf(ns, k)
step_unfixed = [z3.ForAll([nk], dom1(nk) == z3.If(code_cond, z3.Or(dom0(nk), nk==newkey(k)), dom0(nk))),
                z3.ForAll([nk], val1(nk) == z3.If(z3.And(code_cond, nk==newkey(k)), v, val0(nk)))]
code_cond_fixed = z3.PrefixOf(z3.Concat(ns, dot), k)
step_fixed = [z3.ForAll([nk], dom1(nk) == z3.If(code_cond_fixed, z3.Or(dom0(nk), nk==newkey(k)), dom0(nk))),
                z3.ForAll([nk], val1(nk) == z3.If(z3.And(code_cond_fixed, nk==newkey(k)), v, val0(nk)))]
hyp = [Inv(dom0, val0, Pd), z3.Not(Pd(k)), data(k)==v, z3.ForAll([q], Pd1(q) == z3.Or(Pd(q), q==k))]
# simple branch-level obligation
prove('branch-cond agrees with spec (unfixed; expect sat)', [], code_cond == sel(k))
prove('branch-cond agrees with spec (fixed)', [], code_cond_fixed == sel(k))
prove('inv-preserve fixed', hyp+step_fixed, Inv(dom1, val1, Pd1), to=60000)

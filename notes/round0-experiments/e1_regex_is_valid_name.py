import z3, time
s = z3.String('s')
def rng(a,b): return z3.Range(a,b)
head = z3.Union(rng('a','z'), rng('A','Z'), z3.Re('_'))
tail = z3.Star(z3.Union(rng('a','z'), rng('A','Z'), rng('0','9'), z3.Re('.'), z3.Re('_')))
body = z3.Concat(head, tail)
# python: re.match(r'^...$') : '$' matches at end or before a trailing '\n'
py = z3.Concat(body, z3.Option(z3.Re('\n')))
spec = body
sol = z3.Solver(); sol.set('timeout', 20000)
sol.add(z3.InRe(s, py) != z3.InRe(s, spec))
t=time.time(); r = sol.check(); print(r, time.time()-t)
if r == z3.sat: print(repr(sol.model()[s].as_string()))
# fullmatch version
sol = z3.Solver(); sol.add(z3.InRe(s, body) != z3.InRe(s, spec)); print(sol.check())

import z3, time
def prove(name, hyps, goal, to=30000):
    s = z3.Solver(); s.set('timeout', to); s.add(*hyps); s.add(z3.Not(goal)); t0=time.time(); r=s.check()
    print(name, 'PROVED' if r==z3.unsat else r, f'{time.time()-t0:.2f}s'); return s
# level 1: QF string lemmas
ns, k1, k2 = z3.Strings('ns k1 k2'); dot = z3.StringVal('.')
sel = lambda key: z3.PrefixOf(z3.Concat(ns, dot), key)
newkey = lambda key: z3.SubString(key, z3.Length(ns)+1, z3.Length(key))
prove('L3 injective', [sel(k1), sel(k2), newkey(k1)==newkey(k2)], k1==k2)
prove('L4 decode: k == ns+"."+newkey(k)', [sel(k1)], k1 == z3.Concat(ns, dot, newkey(k1)))
s = prove('L4b python slice k[len(ns)+1:] == substr', [], z3.SubString(k1, z3.Length(ns)+1, z3.Length(k1) - (z3.Length(ns)+1)) == newkey(k1))
if s.check()==z3.sat: print(s.model())
# level 2: abstract keys
K = z3.DeclareSort('K'); NK = z3.DeclareSort('NK'); V = z3.DeclareSort('V')
Sel = z3.Function('Sel', K, z3.BoolSort()); New = z3.Function('New', K, NK); data = z3.Function('data', K, V)
a, b = z3.Consts('a b', K); nk = z3.Const('nk', NK); k = z3.Const('k', K); v = z3.Const('v', V)
ax = [z3.ForAll([a,b], z3.Implies(z3.And(Sel(a), Sel(b), New(a)==New(b)), a==b))]
mk = lambda t: (z3.Function('dom'+t, NK, z3.BoolSort()), z3.Function('val'+t, NK, V), z3.Function('P'+t, K, z3.BoolSort()))
(dom0,val0,P0),(dom1,val1,P1) = mk('0'), mk('1')
def Inv(dom,val,P): return z3.And(z3.ForAll([nk], dom(nk) == z3.Exists([a], z3.And(P(a), Sel(a), New(a)==nk))), z3.ForAll([a], z3.Implies(z3.And(P(a), Sel(a)), val(New(a))==data(a))))
step = [z3.ForAll([nk], dom1(nk) == z3.If(Sel(k), z3.Or(dom0(nk), nk==New(k)), dom0(nk))), z3.ForAll([nk], val1(nk) == z3.If(z3.And(Sel(k), nk==New(k)), v, val0(nk))),
        z3.ForAll([a], P1(a) == z3.Or(P0(a), a==k))]
prove('abstract inv-preserve', ax+[Inv(dom0,val0,P0), z3.Not(P0(k)), data(k)==v]+step, Inv(dom1,val1,P1))

import asyncio, tempfile, pathlib
from gwf.backends.local import Scheduler, LocalStatus

async def main():
    d = pathlib.Path(tempfile.mkdtemp()); (d/'.gwf'/'logs').mkdir(parents=True)
    s = Scheduler(working_dir=d, max_cores=1)
    a = await s.enqueue_task('a', 'exit 1', '.', None, [])
    b = await s.enqueue_task('b', 'exit 0', '.', None, [a])
    await s.wait_for({a, b})
    print('states', s.task_states, 'sem value', s.cores_ressource._value)
    c = await s.enqueue_task('c', 'sleep 0.5', '.', None, [])
    e = await s.enqueue_task('e', 'sleep 0.5', '.', None, [])
    await asyncio.sleep(0.2)
    print('d. concurrently running with max_cores=1:', [k for k,v in s.task_states.items() if v==LocalStatus.RUNNING])
    await s.wait_for({c, e})
    # e. missing working dir
    f = await s.enqueue_task('f', 'exit 0', '/nonexistent/dir', None, [])
    await s.wait_for({f})
    print('e. state after start failure:', s.task_states[f], 'exc', s.tasks[f].exception())
    # unknown dep
    g = await s.enqueue_task('g', 'exit 0', '.', None, [999])
    await s.wait_for({g})
    print('unknown dep:', s.task_states[g], repr(s.tasks[g].exception()))
    print('sem', s.cores_ressource._value)
    # cancel while waiting on deps
    h = await s.enqueue_task('h', 'sleep 1', '.', None, [])
    i = await s.enqueue_task('i', 'exit 0', '.', None, [h])
    await asyncio.sleep(0.1)
    await s.cancel_task(i)
    await s.wait_for({h, i})
    print('cancel waiting:', s.task_states[h], s.task_states[i], 'sem', s.cores_ressource._value)
asyncio.run(main())

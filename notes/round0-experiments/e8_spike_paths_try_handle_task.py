"""Scratch spike: path enumeration of the REAL Scheduler.try_handle_task AST with try/except/else/finally,
await = may raise CancelledError, ghost token `held`. Branch conditions are nondeterministic (over-approximation)."""
import ast, sys, itertools
SRC = '/repo/src/gwf/backends/local.py'
tree = ast.parse(open(SRC).read())
fn = next(n for n in ast.walk(tree) if isinstance(n, ast.AsyncFunctionDef) and n.name == 'try_handle_task')
HIER = {'CancelledError': ['BaseException'], 'TimeoutError': ['OSError','Exception','BaseException'], 'OSError': ['Exception','BaseException'],
        'KeyError': ['Exception','BaseException'], 'TimeLimitExceededError': ['Exception','BaseException'], 'TaskFailedError': ['Exception','BaseException']}
def isinst(exc, name): return exc == name or name in HIER.get(exc, [])
def hname(h):
    t = h.type
    if t is None: return 'BaseException'
    n = t.attr if isinstance(t, ast.Attribute) else t.id
    return {'TimeoutError': 'TimeoutError'}.get(n, n)
class St:
    def __init__(s, held=0, proc=False, ev=()): s.held, s.proc, s.ev = held, proc, ev
    def add(s, e, **kw):
        n = St(s.held, s.proc, s.ev + (e,)); [setattr(n, k, v) for k, v in kw.items()]; return n
viol = []
def calls_in(node):
    return [c for c in ast.walk(node) if isinstance(c, ast.Call)]
def eval_effects(node, st):
    """return list of (outcome, state) for evaluating expression/simple stmt `node`."""
    outs = [('N', st)]
    src = ast.unparse(node)
    def fork(exc, label):
        nonlocal outs
        outs = [o for o in outs] + [(('R', exc), s.add(f'{label}!{exc}@L{node.lineno}')) for k, s in outs if k == 'N']
    if 'self.tasks[' in src: fork('KeyError', 'tasks[]')
    if 'self.task_states[dep_tid]' in src: fork('KeyError', 'task_states[]')
    for aw in [a for a in ast.walk(node) if isinstance(a, ast.Await)]:
        fork('CancelledError', 'await')
        t = ast.unparse(aw.value)
        if 'create_subprocess_shell' in t: fork('OSError', 'spawn')
        if 'wait_for' in t: fork('TimeoutError', 'wait_for')
    if 'open(' in src: fork('OSError', 'open')
    res = []
    for k, s in outs:
        if k == 'N':
            if 'cores_ressource.acquire' in src: s = s.add(f'acquire@L{node.lineno}', held=1)
            if 'create_subprocess_shell' in src:
                if s.held != 1: viol.append(('spawn-without-core', s.ev))
                s = s.add('spawn', proc=True)
            if 'cores_ressource.release' in src:
                if s.held != 1: viol.append(('release-without-acquire', s.ev + (f'release@L{node.lineno}',)))
                s = s.add(f'release@L{node.lineno}', held=0)
            m = [n for n in ast.walk(node) if isinstance(n, ast.Assign) and 'self.task_states[tid]' in ast.unparse(n.targets[0])]
            for a in m: s = s.add('state:=' + ast.unparse(a.value).replace('LocalStatus.', '').replace('self.task_states[dep_tid]', 'dep'))
        res.append((k, s))
    return res
def block(stmts, st):
    outs = [('N', st)]
    for s in stmts:
        nxt = []
        for k, cur in outs:
            if k != 'N': nxt.append((k, cur)); continue
            nxt += stmt(s, cur)
        outs = nxt
    return outs
def stmt(s, st):
    if isinstance(s, ast.If):
        r = []
        for k, c in eval_effects(s.test, st):
            if k != 'N': r.append((k, c)); continue
            r += block(s.body, c.add(f'if@L{s.lineno}:T')) + block(s.orelse, c.add(f'if@L{s.lineno}:F'))
        return r
    if isinstance(s, ast.For):  # 0 or 1 iteration, then exit (enough for token accounting)
        r = [('N', st.add(f'for@L{s.lineno}:0'))]
        for k, c in block(s.body, st.add(f'for@L{s.lineno}:1')): r.append((k, c))
        return r
    if isinstance(s, ast.With):
        r = []
        for item in s.items:
            pass
        for k, c in eval_effects(s.items[0].context_expr, st):
            if k != 'N': r.append((k, c)); continue
            r += block(s.body, c)
        return r
    if isinstance(s, ast.Return): return [('Ret', st.add(f'return@L{s.lineno}'))]
    if isinstance(s, ast.Raise):
        n = ast.unparse(s.exc).split('(')[0]; return [(('R', n), st.add(f'raise {n}@L{s.lineno}'))]
    if isinstance(s, ast.Try):
        outs = block(s.body, st); r = []
        for k, c in outs:
            if k == 'N': r += block(s.orelse, c)
            elif isinstance(k, tuple):
                for h in s.handlers:
                    if isinstance(h.type, ast.Tuple): names = [hname(ast.ExceptHandler(type=t)) for t in h.type.elts]
                    else: names = [hname(h)]
                    if any(isinst(k[1], n) for n in names):
                        r += block(h.body, c.add(f'except {names}@L{h.lineno}')); break
                else: r.append((k, c))
            else: r.append((k, c))
        fin = []
        for k, c in r:
            for fk, fc in block(s.finalbody, c): fin.append((k if fk == 'N' else fk, fc))
        return fin
    return eval_effects(s, st)
outs = block(fn.body, St())
print('paths:', len(outs))
bad_exit = [(k, s.ev) for k, s in outs if s.held != 0]
final_missing = [(k, s.ev) for k, s in outs if not any(e.startswith('state:=') and e.split(':=')[1] in ('CANCELLED','KILLED','FAILED','COMPLETED','dep') for e in s.ev)]
escaping = [(k, s.ev) for k, s in outs if isinstance(k, tuple)]
kinds = {}
for v, ev in viol: kinds.setdefault(v, []).append(ev)
for v, evs in kinds.items():
    print(f'OBLIGATION FAILS {v}: {len(evs)} paths; shortest:'); print('   ', ' > '.join(min(evs, key=len)))
print('exits with held!=0:', len(bad_exit))
print('exits where an exception escapes:', len(escaping)); 
for k, ev in sorted({(k, ev[-3:]) for k, ev in escaping})[:12]: print('   ', k, ev)
print('exits with no final-state write:', len(final_missing))
dbl = [ev for k, ev in escaping if k == ('R','CancelledError')]
print('escaping CancelledError (raised inside a handler await):', len(dbl))
from collections import Counter
print(Counter(k[1] for k, ev in escaping))

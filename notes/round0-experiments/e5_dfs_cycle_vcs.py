import z3, time
N = z3.DeclareSort('N')
edge = z3.Function('edge', N, N, z3.BoolSort()); Reach = z3.Function('Reach', N, N, z3.BoolSort())
a,b,c,n,d = z3.Consts('a b c n d', N)
axioms = [z3.ForAll([a], Reach(a,a)), z3.ForAll([a,b,c], z3.Implies(z3.And(Reach(a,b), edge(b,c)), Reach(a,c)))]
Cyc = z3.Exists([a,b], z3.And(edge(a,b), Reach(b,a)))
FRESH, STARTED, DONE = 0,1,2
class S:
    def __init__(s, tag):
        s.st = z3.Function('st'+tag, N, z3.IntSort()); s.fin = z3.Function('fin'+tag, N, z3.IntSort()); s.clock = z3.Int('clock'+tag)
def dom(s): return z3.ForAll([n], z3.And(s.st(n)>=0, s.st(n)<=2))
def GInv(s):
    return z3.And(dom(s), z3.ForAll([n,d], z3.Implies(z3.And(s.st(n)==DONE, edge(n,d)), z3.And(s.st(d)==DONE, s.fin(d) < s.fin(n)))),
                  z3.ForAll([n], z3.Implies(s.st(n)==DONE, s.fin(n) < s.clock)))
def Mono(s, s2):
    return z3.And(z3.ForAll([n], (s2.st(n)==STARTED) == (s.st(n)==STARTED)),
                  z3.ForAll([n], z3.Implies(s.st(n)==DONE, z3.And(s2.st(n)==DONE, s2.fin(n)==s.fin(n)))),
                  z3.ForAll([n], z3.Implies(z3.And(s2.st(n)==DONE, s.st(n)!=DONE), s2.fin(n) >= s.clock)),
                  s2.clock >= s.clock)
def prove(name, hyps, goal, to=30000):
    s = z3.Solver(); s.set('timeout', to); s.add(*axioms); s.add(*hyps); s.add(z3.Not(goal)); t0=time.time(); r=s.check()
    print(name, 'PROVED' if r==z3.unsat else r, f'{time.time()-t0:.2f}s'); return r
node, dep = z3.Consts('node dep', N)
s0, s1, sL, s2, s3 = S('0'), S('1'), S('L'), S('2'), S('3')
def stack_ok(s, cur): return z3.ForAll([n], z3.Implies(s.st(n)==STARTED, Reach(n, cur)))
pre = [GInv(s0), s0.st(node)==FRESH, stack_ok(s0, node)]
# s1: after state[node]=started
eff1 = [z3.ForAll([n], s1.st(n) == z3.If(n==node, STARTED, s0.st(n))), z3.ForAll([n], s1.fin(n)==s0.fin(n)), s1.clock==s0.clock]
P = z3.Function('P', N, z3.BoolSort()); P1 = z3.Function('P1', N, z3.BoolSort())
def LInv(s, P):
    return z3.And(GInv(s), s.st(node)==STARTED,
        z3.ForAll([n], z3.Implies(n!=node, (s.st(n)==STARTED) == (s0.st(n)==STARTED))),
        z3.ForAll([n], z3.Implies(s0.st(n)==DONE, z3.And(s.st(n)==DONE, s.fin(n)==s0.fin(n)))),
        z3.ForAll([n], z3.Implies(z3.And(s.st(n)==DONE, s0.st(n)!=DONE), s.fin(n) >= s0.clock)), s.clock >= s0.clock,
        z3.ForAll([d], z3.Implies(P(d), z3.And(edge(node,d), s.st(d)==DONE))))
prove('loop-init', pre+eff1+[z3.ForAll([d], z3.Not(P(d)))], LInv(s1, P))
hyp = pre + [LInv(sL, P), edge(node, dep), z3.Not(P(dep))]
# branch: started -> raise: must show Cyc
prove('raise => cycle', hyp + [sL.st(dep)==STARTED], Cyc)
# branch fresh: call visitor(dep): pre
prove('call-pre', hyp + [sL.st(dep)!=STARTED, sL.st(dep)==FRESH], z3.And(GInv(sL), stack_ok(sL, dep)))
callpost = [s2.st(dep)==DONE, Mono(sL, s2), GInv(s2)]
upd = [z3.ForAll([d], P1(d) == z3.Or(P(d), d==dep))]
prove('preserve (fresh branch)', hyp + [sL.st(dep)==FRESH] + callpost + upd, LInv(s2, P1))
prove('preserve (done branch)', hyp + [sL.st(dep)!=STARTED, sL.st(dep)!=FRESH] + upd, LInv(sL, P1))
# exit: P == deps(node); state[node]=done ; ghost fin[node]=clock; clock+=1
after = pre + [LInv(sL, P), z3.ForAll([d], edge(node,d) == P(d))]
eff3 = [z3.ForAll([n], s3.st(n) == z3.If(n==node, DONE, sL.st(n))), z3.ForAll([n], s3.fin(n) == z3.If(n==node, sL.clock, sL.fin(n))), s3.clock == sL.clock+1]
prove('post visitor', after + eff3, z3.And(s3.st(node)==DONE, Mono(s0, s3), GInv(s3)))
# callee exceptional: if visitor(dep) raises Cyc holds -> propagates trivially.
# top-level loop: for node in nodes: if fresh: visitor(node) ; inv: GInv, no started ; end: all done => forall edges fin(d)<fin(n)
top = [GInv(s0), z3.ForAll([n], s0.st(n)!=STARTED)]
prove('top call-pre', top + [s0.st(node)==FRESH], stack_ok(s0, node))
prove('top post: acyclic witness', top + [z3.ForAll([n], s0.st(n)==DONE)], z3.ForAll([n,d], z3.Implies(edge(n,d), s0.fin(d) < s0.fin(n))))
# acyclic witness => no cycle? needs induction over Reach (least fixpoint) -- not FO provable with intro rules only. Check what z3 says:
fin = s0.fin
prove('witness => not Cyc (expect not provable w/o induction)', [z3.ForAll([n,d], z3.Implies(edge(n,d), fin(d) < fin(n)))], z3.Not(Cyc), to=5000)
# mutant: 'elif state[dep]==fresh' dropped -> visitor not called on fresh deps: preserve(done branch) with st(dep)==FRESH
prove('MUT skip fresh (expect sat)', hyp + [sL.st(dep)!=STARTED] + upd, LInv(sL, P1))
# mutant: check `state[dep]==done` instead of started for raise: raise => cycle
prove('MUT raise on done (expect sat)', hyp + [sL.st(dep)==DONE], Cyc)

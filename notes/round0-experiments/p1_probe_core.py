import asyncio, os, sys, tempfile
from gwf import Target
from gwf.core import Graph, CachedFilesystem, NoopSpecHashes
from gwf.scheduling import should_run, get_status_map
from tests.conftest import FakeFilesystem, FakeBackend

fs = FakeFilesystem()
t = Target('A', inputs=[], outputs={'A': []}, options={}, working_dir='/w')
print('a. should_run empty named outputs ->', should_run(t, fs, NoopSpecHashes()))
t = Target('A', inputs=[], outputs=[[]], options={}, working_dir='/w')
print('a2. should_run [[]] ->', should_run(t, fs, NoopSpecHashes()))

# g. same target, duplicate outputs
try:
    Graph.from_targets([Target('A', inputs=[], outputs=['x','./x'], options={}, working_dir='/w')], fs)
    print('g. dup ok')
except Exception as e: print('g.', type(e).__name__, e)
# h. absolute non-normalised
fs2 = FakeFilesystem()
try:
    g = Graph.from_targets([Target('A', inputs=[], outputs=['/w/x'], options={}, working_dir='/w'),
                        Target('B', inputs=['/w/./x'], outputs=['y'], options={}, working_dir='/w')], fs2)
    print('h. deps of B', g.dependencies[g['B']])
except Exception as e: print('h.', type(e).__name__, e)
# f. recursion
n = 1200
ts = [Target('T0', inputs=[], outputs=['f0'], options={}, working_dir='/w')]
for i in range(1, n):
    ts.append(Target(f'T{i}', inputs=[f'f{i-1}'], outputs=[f'f{i}'], options={}, working_dir='/w'))
try:
    g = Graph.from_targets(ts, fs2); print('f. graph ok')
    m = get_status_map(g, fs2, NoopSpecHashes(), FakeBackend()); print('f. status ok', len(m))
except RecursionError as e: print('f. RecursionError', str(e)[:60])
# reversed order definition (DFS visits first the end of chain)
try:
    g = Graph.from_targets(list(reversed(ts)), fs2); print('f2. graph ok')
except RecursionError as e: print('f2. RecursionError', str(e)[:60])

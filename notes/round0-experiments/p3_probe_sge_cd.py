# SGE id newline + cd quoting probes with fake executables
import os, stat, tempfile, subprocess, sys
d = tempfile.mkdtemp(); 
def exe(name, body):
    p = os.path.join(d, name); open(p,'w').write('#!/bin/sh\n'+body); os.chmod(p, 0o755)
exe('qsub', 'cat > /dev/null; echo 4242\n'); exe('qdel', 'true\n')
exe('qstat', "cat <<X\n<job_info><queue_info><job_list><JB_job_number>4242</JB_job_number><state>qw</state></job_list></queue_info></job_info>\nX\n")
os.environ['PATH'] = d + ':' + os.environ['PATH']
from gwf import Target
from gwf.backends.sge import SGEOps, TARGET_DEFAULTS
from gwf.backends.base import TrackingBackend
wd = tempfile.mkdtemp(); os.makedirs(os.path.join(wd, '.gwf', 'logs'))
b = TrackingBackend(wd, name='sge', ops=SGEOps(wd, target_defaults=TARGET_DEFAULTS))
t = Target('A', inputs=[], outputs=['o'], options={'cores':1,'memory':'1g','walltime':'01:00:00'}, working_dir=os.path.join(wd, 'my dir'))
b.submit(t, [])
print('tracked id repr:', repr(b._tracked_jobs['A']))
b.close()
b2 = TrackingBackend(wd, name='sge', ops=SGEOps(wd, target_defaults=TARGET_DEFAULTS))
print('status after reload:', b2.status(t), 'job_states', b2._job_states)
script = SGEOps(wd, TARGET_DEFAULTS).compile_script(t)
os.makedirs(t.working_dir)
t.spec = 'pwd > ' + os.path.join(wd, 'where.txt')
script = SGEOps(wd, TARGET_DEFAULTS).compile_script(t)
r = subprocess.run(['bash', '-c', script], cwd='/tmp', capture_output=True, text=True)
print('bash rc', r.returncode, r.stderr.strip()[:80]); print('ran in:', open(os.path.join(wd,'where.txt')).read().strip(), 'expected', t.working_dir)

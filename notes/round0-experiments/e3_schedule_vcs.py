# Hand-built VCs for scheduling._schedule / _cached_schedule to gauge z3 on the quantified invariants.
import z3, time
T = z3.DeclareSort('T')
St, (SHOULDRUN, SUBMITTED, RUNNING, COMPLETED, FAILED, CANCELLED) = z3.EnumSort('St', ['SHOULDRUN','SUBMITTED','RUNNING','COMPLETED','FAILED','CANCELLED'])
B, (bUNK, bSUB, bRUN, bCOMP, bFAIL, bCANC) = z3.EnumSort('B', ['UNK','SUB','RUN','COMP','FAIL','CANC'])
deps = z3.Function('deps', T, T, z3.BoolSort())
bs = z3.Function('bs', T, B); stale = z3.Function('stale', T, z3.BoolSort())
Spec = z3.Function('Spec', T, St); rank = z3.Function('rank', T, z3.IntSort())
InCone = z3.Function('InCone', T, z3.BoolSort())
u, d, e = z3.Consts('u d e', T)
def anySub(t): return z3.Exists([d], z3.And(deps(t,d), Spec(d) != COMPLETED))
def SpecDef(t):
    return Spec(t) == z3.If(bs(t)==bSUB, SUBMITTED, z3.If(bs(t)==bRUN, RUNNING, z3.If(bs(t)==bFAIL, FAILED, z3.If(bs(t)==bCANC, CANCELLED,
            z3.If(z3.Or(anySub(t), stale(t)), SHOULDRUN, COMPLETED)))))
axioms = [z3.ForAll([u], SpecDef(u)),
          z3.ForAll([u,d], z3.Implies(deps(u,d), rank(d) < rank(u))),
          z3.ForAll([u,d], z3.Implies(z3.And(InCone(u), deps(u,d)), InCone(d)))]
def Needs(s): return z3.Or(s==SHOULDRUN, s==FAILED, s==CANCELLED)
class Sigma:
    def __init__(self, tag):
        self.inC = z3.Function('inC'+tag, T, z3.BoolSort()); self.val = z3.Function('val'+tag, T, St)
        self.subm = z3.Function('subm'+tag, T, z3.BoolSort()); self.pos = z3.Function('pos'+tag, T, z3.IntSort())
        self.sdeps = z3.Function('sdeps'+tag, T, T, z3.BoolSort()); self.n = z3.Int('n'+tag)
def InvAt(s, x):
    return z3.Implies(s.inC(x), z3.And(s.val(x)==Spec(x), InCone(x),
        z3.ForAll([d], z3.Implies(deps(x,d), s.inC(d))),
        s.subm(x) == Needs(Spec(x)),
        z3.Implies(s.subm(x), z3.And(0 <= s.pos(x), s.pos(x) < s.n,
            z3.ForAll([d], s.sdeps(x,d) == z3.And(deps(x,d), Spec(d)!=COMPLETED)),
            z3.ForAll([d], z3.Implies(z3.And(s.sdeps(x,d), s.subm(d)), s.pos(d) < s.pos(x)))))))
def Inv(s): return z3.And(z3.ForAll([u], InvAt(s,u)), z3.ForAll([u], z3.Implies(s.subm(u), s.inC(u))), s.n >= 0)
def Ext(a, b, bound_t):  # a ⊑ b, new entries have rank <= rank(bound_t)
    return z3.And(z3.ForAll([u], z3.Implies(a.inC(u), z3.And(b.inC(u), b.val(u)==a.val(u)))),
        z3.ForAll([u], z3.Implies(a.subm(u), z3.And(b.subm(u), b.pos(u)==a.pos(u), z3.ForAll([d], b.sdeps(u,d)==a.sdeps(u,d))))),
        z3.ForAll([u], z3.Implies(z3.And(b.subm(u), z3.Not(a.subm(u))), z3.And(b.inC(u), z3.Not(a.inC(u)), b.pos(u) >= a.n))),
        a.n <= b.n,
        z3.ForAll([u], z3.Implies(z3.And(b.inC(u), z3.Not(a.inC(u))), rank(u) <= rank(bound_t))))
def prove(name, hyps, goal, timeout=30000):
    s = z3.Solver(); s.set('timeout', timeout); s.add(*axioms); s.add(*hyps); s.add(z3.Not(goal))
    t0=time.time(); r = s.check(); print(f'{name}: {"PROVED" if r==z3.unsat else r} {time.time()-t0:.2f}s'); return r

t = z3.Const('t', T)
# --- loop over deps of t: state s0 at entry of _schedule, sL at loop head with processed set P, SD submitted_deps
s0, sL, s1 = Sigma('0'), Sigma('L'), Sigma('1')
P = z3.Function('P', T, z3.BoolSort()); SD = z3.Function('SD', T, z3.BoolSort())
P1 = z3.Function('P1', T, z3.BoolSort()); SD1 = z3.Function('SD1', T, z3.BoolSort())
pre = [Inv(s0), z3.Not(s0.inC(t)), InCone(t)]
def LoopInv(s, P, SD):
    return z3.And(Inv(s), Ext(s0, s, t), z3.Not(s.inC(t)),
        z3.ForAll([d], z3.Implies(P(d), z3.And(deps(t,d), s.inC(d)))),
        z3.ForAll([d], SD(d) == z3.And(P(d), Spec(d)!=COMPLETED)),
        z3.ForAll([u], z3.Implies(z3.And(s.inC(u), z3.Not(s0.inC(u))), rank(u) < rank(t))))
# init
Pe = z3.Function('Pe', T, z3.BoolSort())
prove('loop-init', pre + [z3.ForAll([d], z3.Not(P(d))), z3.ForAll([d], z3.Not(SD(d)))],
      z3.And(*[c for c in [Inv(s0), z3.Not(s0.inC(t))]]))  # Ext(s0,s0) trivial
# preservation: pick dep x in deps(t) \ P, call _cached_schedule(x): pre Inv(sL), InCone(x); post s1
x = z3.Const('x', T); res = z3.Const('res', St)
callpost = [Inv(s1), Ext(sL, s1, x), s1.inC(x), res == s1.val(x),
            z3.ForAll([u], z3.Implies(z3.And(s1.inC(u), z3.Not(sL.inC(u))), InCone(u)))]
hyp = pre + [LoopInv(sL, P, SD), deps(t,x), z3.Not(P(x))]
prove('call-pre (InCone(x), decreases)', hyp, z3.And(InCone(x), rank(x) < rank(t)))
upd = [z3.ForAll([d], P1(d) == z3.Or(P(d), d==x)),
       z3.ForAll([d], SD1(d) == z3.Or(SD(d), z3.And(d==x, res != COMPLETED)))]
prove('loop-preserve', hyp + callpost + upd, LoopInv(s1, P1, SD1))
# after loop: P == deps(t); paths
after = pre + [LoopInv(sL, P, SD), z3.ForAll([d], deps(t,d) == P(d))]
sdne = z3.Exists([d], SD(d))
# path: bs==SUB -> return SUBMITTED, no submit
def post_schedule(s, result, did_submit):
    # postcondition of _schedule(t)
    c = [Inv(s), Ext(s0, s, t) if False else z3.BoolVal(True), result == Spec(t), z3.ForAll([d], z3.Implies(deps(t,d), s.inC(d))), z3.Not(s.inC(t))]
    return z3.And(*c)
prove('ret SUBMITTED', after + [bs(t)==bSUB], SUBMITTED == Spec(t))
prove('ret RUNNING', after + [bs(t)!=bSUB, bs(t)==bRUN], RUNNING == Spec(t))
prove('ret COMPLETED', after + [bs(t)!=bSUB, bs(t)!=bRUN, bs(t)!=bFAIL, bs(t)!=bCANC, z3.Not(sdne), z3.Not(stale(t))], COMPLETED == Spec(t))
prove('ret SHOULDRUN(deps)', after + [bs(t)!=bSUB, bs(t)!=bRUN, bs(t)!=bFAIL, bs(t)!=bCANC, sdne], SHOULDRUN == Spec(t))
prove('ret SHOULDRUN(stale)', after + [bs(t)!=bSUB, bs(t)!=bRUN, bs(t)!=bFAIL, bs(t)!=bCANC, z3.Not(sdne), stale(t)], SHOULDRUN == Spec(t))
# submit effect: s2 = sL with subm[t]=True, pos[t]=n, sdeps[t,.]=SD, n+1; then cache[t]=result -> s3 ; prove Inv(s3)
s3 = Sigma('3'); result = z3.Const('result', St)
submit_eff = [z3.ForAll([u], s3.subm(u) == z3.Or(sL.subm(u), u==t)), z3.ForAll([u], s3.pos(u) == z3.If(u==t, sL.n, sL.pos(u))),
              z3.ForAll([u,d], s3.sdeps(u,d) == z3.If(u==t, SD(d), sL.sdeps(u,d))), s3.n == sL.n+1,
              z3.ForAll([u], s3.inC(u) == z3.Or(sL.inC(u), u==t)), z3.ForAll([u], s3.val(u) == z3.If(u==t, result, sL.val(u)))]
prove('submit at-most-once pre', after, z3.Not(sL.subm(t)))
prove('Inv after submit+store (FAILED path)', after + [bs(t)!=bSUB, bs(t)!=bRUN, bs(t)==bFAIL, result==FAILED] + submit_eff, z3.And(Inv(s3), Ext(s0, s3, t)))
nosub_eff = [z3.ForAll([u], s3.subm(u) == sL.subm(u)), z3.ForAll([u], s3.pos(u) == sL.pos(u)), z3.ForAll([u,d], s3.sdeps(u,d) == sL.sdeps(u,d)), s3.n == sL.n,
              z3.ForAll([u], s3.inC(u) == z3.Or(sL.inC(u), u==t)), z3.ForAll([u], s3.val(u) == z3.If(u==t, result, sL.val(u)))]
prove('Inv after store (COMPLETED path)', after + [bs(t)!=bSUB, bs(t)!=bRUN, bs(t)!=bFAIL, bs(t)!=bCANC, z3.Not(sdne), z3.Not(stale(t)), result==COMPLETED] + nosub_eff, z3.And(Inv(s3), Ext(s0, s3, t)))
# mutation: SUBMITTED_STATES lacks FAILED  -> SD(d) == P(d) and Spec(d) not in {COMPLETED, FAILED}
def LoopInvMut(s, P, SD):
    return z3.And(Inv(s), z3.ForAll([d], z3.Implies(P(d), z3.And(deps(t,d), s.inC(d)))),
        z3.ForAll([d], SD(d) == z3.And(P(d), Spec(d)!=COMPLETED, Spec(d)!=FAILED)))
afterM = pre + [LoopInvMut(sL, P, SD), z3.ForAll([d], deps(t,d) == P(d))]
prove('MUTANT ret COMPLETED (expect sat)', afterM + [bs(t)!=bSUB, bs(t)!=bRUN, bs(t)!=bFAIL, bs(t)!=bCANC, z3.Not(sdne), z3.Not(stale(t))], COMPLETED == Spec(t))

"""Bounded stand-in for the last clause of C04: "for workflows of any size and dependency depth graph building and the
commands built on it terminate without crashing" (quantifier: long dependency chains, thousands of targets).
The deductive contracts prove partial correctness only (no stack-depth or termination obligations), so this clause is
decided here, bounded: one dependency chain of DEPTH targets, defined first-to-last and last-to-first, through the real
Graph.from_targets, schedule (get_status_map), touch_workflow and Graph.dfs.  Runs in a child interpreter so that a
hard crash (C stack) is observed as an exit status instead of killing the checker."""
import json
import os
import subprocess
import sys

DEPTH = 3000

CHILD = r'''
import json, sys, tempfile, os
sys.path.insert(0, sys.argv[1])
depth = int(sys.argv[2])
from gwf.core import Graph, Target
out = []

class FS:
    def exists(self, p):
        return False
    def changed_at(self, p):
        raise FileNotFoundError(p)

def chain(order):
    ts = {}
    for i in order:
        ts[f"t{i}"] = Target(name=f"t{i}", inputs=[f"f{i-1}"] if i else [], outputs=[f"f{i}"], options={},
                             working_dir="/w")
    return ts

def attempt(label, f):
    try:
        f()
        out.append([label, "ok", ""])
        return True
    except BaseException as e:
        out.append([label, type(e).__name__, str(e)[:100]])
        return False

graphs = {}
for oname, order in (("defined first-to-last", range(depth)), ("defined last-to-first", reversed(range(depth)))):
    ts = chain(order)
    def build(ts=ts, oname=oname):
        graphs[oname] = Graph.from_targets(ts, FS())
        assert len(graphs[oname].targets) == depth
    attempt(f"Graph.from_targets ({oname})", build)
g = graphs.get("defined first-to-last")
if g is not None:
    from gwf.scheduling import get_status_map, Status
    from gwf.backends.base import BackendStatus
    class NoHashes:
        def has_changed(self, t): return None
        def update(self, t): pass
    class Backend:
        def status(self, t): return BackendStatus.UNKNOWN
    def sched():
        m = get_status_map(g, FS(), NoHashes(), Backend())
        assert len(m) == depth and all(v == Status.SHOULDRUN for v in m.values()), "wrong status table"
    attempt("get_status_map / schedule", sched)
    def dfs():
        end = [t for t in g.endpoints()]
        assert len(end) == 1 and len(g.dfs(end[0])) == depth
    attempt("Graph.dfs", dfs)
    from gwf.plugins.touch import touch_workflow
    import pathlib
    real_touch = pathlib.Path.touch
    touched = []
    pathlib.Path.touch = lambda self, *a, **k: touched.append(str(self))
    try:
        def tch():
            touch_workflow(g.endpoints(), g, NoHashes())
            assert len(touched) == depth, f"touched {len(touched)} files"
        attempt("touch_workflow", tch)
    finally:
        pathlib.Path.touch = real_touch
print(json.dumps(out))
'''


def replay(eng, ob, model, seed, src=None):
    src = src or next((p for p in sys.path if os.path.isdir(os.path.join(p, "gwf"))), "/repo/src")
    r = subprocess.run([sys.executable, "-c", CHILD, src, str(DEPTH)], capture_output=True, text=True, timeout=280)
    bound = f"one chain of {DEPTH} targets in two definition orders through from_targets, schedule, dfs, touch_workflow"
    try:
        rows = json.loads(r.stdout.strip().splitlines()[-1])
    except Exception:
        return {"failed_on_real_code": True, "input": {"chain depth": DEPTH}, "candidates_tried": 1,
                "observed": [f"child interpreter ended with status {r.returncode}: {r.stderr[-300:]}"],
                "witness_class": "deep-chain-hard-crash", "call": "python -c <deep chain script>"}
    bad = [row for row in rows if row[1] != "ok"]
    if not bad:
        return {"failed_on_real_code": False, "candidates_tried": len(rows), "bound": bound}
    only_recursion = all(row[1] == "RecursionError" for row in bad)
    return {"failed_on_real_code": True, "input": {"chain depth": DEPTH, "targets": "t0 <- t1 <- ... (t_i reads f_{i-1}, writes f_i)"},
            "observed": [f"{row[0]}: {row[1]} {row[2]}".strip() for row in bad], "candidates_tried": len(rows),
            "witness_class": "recursion-error-on-deep-chain" if only_recursion else "deep-chain-other",
            "call": "Graph.from_targets / get_status_map / Graph.dfs / touch_workflow on a chain of %d targets" % DEPTH}

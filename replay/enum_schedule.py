"""Bounded enumerative refuter / CPython cross-check for gwf.scheduling.schedule (replay only:
never counted as proof). Bound: <= 3 targets, every DAG on them, every backend status, every
staleness flag, every non-empty endpoint set."""
import itertools
from collections import defaultdict


def spec_table(n, deps, bstat, stale):
    from gwf.core import Status
    from gwf.backends.base import BackendStatus as B
    spec = {}

    def rec(i):
        if i in spec:
            return spec[i]
        for d in deps[i]:
            rec(d)
        if bstat[i] == B.SUBMITTED:
            s = Status.SUBMITTED
        elif bstat[i] == B.RUNNING:
            s = Status.RUNNING
        elif bstat[i] == B.FAILED:
            s = Status.FAILED
        elif bstat[i] == B.CANCELLED:
            s = Status.CANCELLED
        elif stale[i] or any(spec[d] != Status.COMPLETED for d in deps[i]):
            s = Status.SHOULDRUN
        else:
            s = Status.COMPLETED
        spec[i] = s
        return s

    for i in range(n):
        rec(i)
    return spec


def check_one(n, edges, bstat, stale, endpoints):
    import gwf.scheduling as S
    from gwf.core import Target, Status
    targets = [Target(name=f"t{i}", inputs=[], outputs=[f"o{i}"], options={}, working_dir="/w") for i in range(n)]
    deps = {i: {j for (a, j) in edges if a == i} for i in range(n)}

    class G:
        dependencies = defaultdict(set)

    g = G()
    g.dependencies = defaultdict(set, {targets[i]: {targets[j] for j in deps[i]} for i in range(n) if deps[i]})
    existing = {t.flattened_outputs()[0] for i, t in enumerate(targets) if not stale[i]}

    class FS:
        def exists(self, p):
            return p in existing

        def changed_at(self, p):
            if p not in existing:
                raise FileNotFoundError(p)
            return 1.0

    class H:
        def has_changed(self, t):
            return None

    log = []
    idx = {t: i for i, t in enumerate(targets)}
    result = S.schedule({targets[i] for i in endpoints}, g, FS(), H(), lambda t: bstat[idx[t]],
                        lambda t, dependencies: log.append((idx[t], sorted(idx[d] for d in dependencies))))
    spec = spec_table(n, deps, bstat, stale)
    cone = set()

    def reach(i):
        if i not in cone:
            cone.add(i)
            for d in deps[i]:
                reach(d)

    for e in endpoints:
        reach(e)
    needs = {Status.SHOULDRUN, Status.FAILED, Status.CANCELLED}
    got = {idx[t]: s for t, s in result.items()}
    want = {i: spec[i] for i in cone}
    problems = []
    if got != want:
        problems.append(f"status map {got} != {want}")
    logged = [i for i, _ in log]
    if sorted(logged) != sorted(i for i in cone if spec[i] in needs):
        problems.append(f"submitted {logged}, required {sorted(i for i in cone if spec[i] in needs)}")
    for pos, (i, ds) in enumerate(log):
        wantd = sorted(d for d in deps[i] if spec[d] != Status.COMPLETED)
        if ds != wantd:
            problems.append(f"t{i} submitted with prerequisites {ds}, required {wantd}")
        for d in ds:
            if d in logged and logged.index(d) > pos:
                problems.append(f"t{i} submitted before its prerequisite t{d}")
    return problems


def search(limit_n=3, budget=200000):
    from gwf.backends.base import BackendStatus as B
    tried = 0
    for n in range(1, limit_n + 1):
        pairs = [(i, j) for i in range(n) for j in range(i)]
        for k in range(len(pairs) + 1):
            for edges in itertools.combinations(pairs, k):
                for bstat in itertools.product(list(B), repeat=n):
                    for stale in itertools.product([False, True], repeat=n):
                        for r in range(1, n + 1):
                            for endpoints in itertools.combinations(range(n), r):
                                tried += 1
                                if tried > budget:
                                    return None, tried
                                try:
                                    problems = check_one(n, edges, bstat, stale, endpoints)
                                except Exception as e:
                                    problems = [f"raised {type(e).__name__}: {e}"]
                                if problems:
                                    return {"targets": n, "edges(dependent,dependency)": list(edges),
                                            "backend_status": [b.name for b in bstat], "stale": list(stale),
                                            "endpoints": list(endpoints), "problems": problems}, tried
    return None, tried


def replay(eng, ob, model, seed):
    import os
    thorough = os.environ.get("VERIF_TIER") == "thorough"
    # thorough: also every DAG on 4 targets (the enumeration order reaches all 4-target graph shapes with the first
    # backend states; capped at 3 million candidates)
    w, tried = search(4, 3000000) if thorough else search()
    if w is None:
        return {"failed_on_real_code": False, "candidates_tried": tried,
                "bound": ("<=4 targets (capped at 3e6 candidates)" if thorough else "<=3 targets") +
                         ", all DAGs, all backend statuses, all staleness flags, all endpoint sets"}
    return {"failed_on_real_code": True, "input": w, "observed": w["problems"], "candidates_tried": tried,
            "call": "gwf.scheduling.schedule(endpoints, graph, fs, spec_hashes, status_func, submit_func)",
            "witness_class": "schedule-small-dag"}

#!/venv/bin/python
"""Fake Slurm commands (sbatch, squeue, sacct, scancel, sinfo) for replay harnesses: state in $FAKE_SLURM_STATE."""
import json
import os
import re
import sys


def load():
    p = os.environ["FAKE_SLURM_STATE"]
    try:
        return json.load(open(p))
    except FileNotFoundError:
        return {"next": 1000, "jobs": {}, "calls": []}


def save(s):
    json.dump(s, open(os.environ["FAKE_SLURM_STATE"], "w"))


def main():
    cmd = os.path.basename(sys.argv[0])
    args = sys.argv[1:]
    s = load()
    s["calls"].append([cmd] + args)
    fail = os.environ.get("FAKE_SLURM_FAIL", "")
    if cmd == "sbatch":
        script = sys.stdin.read()
        n_sub = sum(1 for c in s["calls"] if c[0] == "sbatch")
        if fail and str(n_sub) in fail.split(","):
            save(s)
            sys.stderr.write("sbatch: error: Batch job submission failed\n")
            sys.exit(1)
        jid = str(s["next"])
        s["next"] += 1
        name = re.search(r"#SBATCH --job-name=(\S+)", script)
        deps = []
        for a in args:
            if a.startswith("--dependency=afterok:"):
                deps = a[len("--dependency=afterok:"):].split(":")
        s["jobs"][jid] = {"name": name.group(1) if name else None, "deps": deps, "state": "PD", "script": script,
                          "args": args}
        save(s)
        print(jid)
    elif cmd == "squeue":
        save(s)
        for jid, j in s["jobs"].items():
            if j["state"] in ("PD", "R", "CG", "CF", "S"):
                print(f"{jid};{j['state']}")
    elif cmd == "sacct":
        save(s)
        ids = args[-1].split(",") if args else []
        long = {"PD": "PENDING", "R": "RUNNING", "CD": "COMPLETED", "F": "FAILED", "CA": "CANCELLED by 1000",
                "TO": "TIMEOUT", "OOM": "OUT_OF_MEMORY", "NF": "NODE_FAIL"}
        for jid in ids:
            if jid in s["jobs"]:
                print(f"{jid}|{long.get(s['jobs'][jid]['state'], 'COMPLETED')}")
    elif cmd == "scancel":
        jid = args[-1]
        if jid in s["jobs"]:
            s["jobs"][jid]["state"] = "CA"
            save(s)
        else:
            save(s)
            sys.stderr.write(f"scancel: error: Invalid job id {jid}\n")
    else:
        save(s)


main()

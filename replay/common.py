"""Realisers: turn solver models into inputs of the real functions and run them (CPython)."""
import itertools
import z3


def tree_to_py(eng, term, counter, prefix="f"):
    """z3 Tree datatype value -> nested Python inputs/outputs value with fresh distinct leaf names"""
    vc = eng.vc
    Tree, TreeList = vc.TreeS, vc.TreeListS

    def kids(tl):
        out = []
        while z3.is_app(tl) and tl.decl().name() == "tcons":
            out.append(rec(tl.arg(0)))
            tl = tl.arg(1)
        return out

    def rec(t):
        name = t.decl().name() if z3.is_app(t) else ""
        if name == "leaf":
            return f"{prefix}{next(counter)}.txt"
        if name == "lst":
            return kids(t.arg(0))
        if name == "dct":
            return {f"k{i}": k for i, k in enumerate(kids(t.arg(0)))}
        return []

    return rec(term)


def model_tree(eng, model, target_sym, field):
    vc = eng.vc
    fn = eng.const_fn("Target", field, vc.Tree)
    return model.eval(fn(target_sym), model_completion=True)

"""End-to-end replay harness: a temporary gwf project, fake Slurm commands on PATH, and the real
`gwf` command line driven in-process through click's CliRunner (real cli.main, real plugins, real backend)."""
import json
import logging
import os
import shutil
import tempfile
import textwrap

HERE = os.path.dirname(os.path.abspath(__file__))


class Project:
    def __init__(self, targets, config=None, source=None):
        """targets: list of dict(name, inputs, outputs, protect?, spec?); source: literal workflow.py text instead"""
        self.dir = tempfile.mkdtemp(prefix="gwfverif-")
        self.targets = targets
        self.state = os.path.join(self.dir, "fake_slurm.json")
        lines = ["from gwf import Workflow", "gwf = Workflow()"]
        for t in targets:
            lines.append("gwf.target(%r, inputs=%r, outputs=%r, protect=%r) << %r" % (
                t["name"], t.get("inputs", []), t.get("outputs", []), t.get("protect", []),
                t.get("spec", "echo " + t["name"])))
        if source is not None:
            lines = [source]
        with open(os.path.join(self.dir, "workflow.py"), "w") as f:
            f.write("\n".join(lines) + "\n")
        if config:
            json.dump(config, open(os.path.join(self.dir, ".gwfconf.json"), "w"))
        self.env = {"FAKE_SLURM_STATE": self.state,
                    "PATH": os.path.join(HERE, "fake_slurm") + os.pathsep + os.environ.get("PATH", "")}

    def path(self, rel):
        return os.path.join(self.dir, rel)

    def touch(self, rel, mtime=None):
        p = self.path(rel)
        os.makedirs(os.path.dirname(p), exist_ok=True)
        with open(p, "a"):
            pass
        if mtime is not None:
            os.utime(p, (mtime, mtime))

    def gwf(self, *args, fail_submit="", input=None, cwd=None, file_arg="ABS", global_opts=("-b", "slurm")):
        """run `gwf -f <project>/workflow.py -b slurm <args>` in-process; returns (exit_code, output)"""
        from click.testing import CliRunner
        from gwf.cli import main
        root = logging.getLogger()
        for h in list(root.handlers):
            root.removeHandler(h)
        env = dict(self.env)
        if fail_submit:
            env["FAKE_SLURM_FAIL"] = fail_submit
        old = {k: os.environ.get(k) for k in env}
        os.environ.update(env)
        saved_cwd = os.getcwd()
        os.chdir(cwd or self.dir)
        fopt = [] if file_arg is None else ["-f", self.path("workflow.py") if file_arg == "ABS" else file_arg]
        try:
            r = CliRunner().invoke(main, fopt + list(global_opts) + list(args), input=input, catch_exceptions=True)
        finally:
            os.chdir(saved_cwd)
            for k, v in old.items():
                if v is None:
                    os.environ.pop(k, None)
                else:
                    os.environ[k] = v
            for h in list(root.handlers):
                root.removeHandler(h)
        out = r.output
        if r.exception is not None and not isinstance(r.exception, SystemExit):
            out += f"\n!! {type(r.exception).__name__}: {r.exception}"
        return r.exit_code, out

    def slurm(self):
        try:
            return json.load(open(self.state))
        except FileNotFoundError:
            return {"next": 1000, "jobs": {}, "calls": []}

    def set_slurm(self, s):
        json.dump(s, open(self.state, "w"))

    def snapshot(self):
        """project tree without the scheduler journal: relative path -> (size, content hash for small files)"""
        out = {}
        for d, _, files in os.walk(self.dir):
            for f in files:
                p = os.path.join(d, f)
                rel = os.path.relpath(p, self.dir)
                if rel == "fake_slurm.json" or "__pycache__" in rel:
                    continue
                with open(p, "rb") as fh:
                    out[rel] = fh.read()
        return out

    def drain(self, ok=True):
        """the cluster runs every queued job successfully, respecting afterok, each creating its outputs"""
        import time
        s = self.slurm()
        byname = {t["name"]: t for t in self.targets}
        progress = True
        while progress:
            progress = False
            for jid, j in sorted(s["jobs"].items(), key=lambda kv: int(kv[0])):
                if j["state"] not in ("PD", "R"):
                    continue
                if all(s["jobs"].get(d, {}).get("state") == "CD" for d in j["deps"]):
                    for o in byname.get(j["name"], {}).get("outputs", []):
                        self.touch(o, time.time() + int(jid) - 2000 + 1000)
                    j["state"] = "CD"
                    progress = True
        self.set_slurm(s)

    def close(self):
        shutil.rmtree(self.dir, ignore_errors=True)


def parse_status(out):
    """`gwf status` default table -> {name: status}"""
    rows = {}
    for line in out.splitlines():
        parts = line.split()
        if len(parts) >= 3 and parts[-1] in ("shouldrun", "submitted", "running", "completed", "failed", "cancelled"):
            rows[parts[1]] = parts[-1]
    return rows

"""Bounded end-to-end refuters (replay only, never counted as proof): the real `gwf` command line on small
temporary projects with fake Slurm commands on PATH. Oracles are written from the property statements.
Bound: the workflows of WORKFLOWS (<= 4 targets: single, chain, diamond, fan, with a source input), a few
initial file / job states each, name patterns from a fixed list."""
import itertools
import json
import os
import shutil
import tempfile
import time

from .cli_harness import Project, parse_status

T = lambda name, ins=(), outs=(), **kw: dict(name=name, inputs=list(ins), outputs=list(outs), **kw)
WORKFLOWS = {
    "single": [T("a", ["src.txt"], ["a.txt"])],
    "chain": [T("a", ["src.txt"], ["a.txt"]), T("b", ["a.txt"], ["b.txt"]), T("c", ["b.txt"], ["c.txt"])],
    "diamond": [T("a", [], ["a.txt"]), T("b", ["a.txt"], ["b.txt"]), T("c", ["a.txt"], ["c.txt"]),
                T("d", ["b.txt", "c.txt"], ["d.txt"])],
    "fan": [T("a", [], ["a.txt"]), T("b", ["a.txt"], ["b1.txt", "b2.txt"]), T("sink", ["a.txt"], [])],
    "protected": [T("a", [], ["a.txt", "keep.txt"], protect=["keep.txt"]), T("b", ["a.txt", "./keep.txt"], ["b.txt"])],
}
NEEDS = ("shouldrun", "failed", "cancelled")


def deps_of(targets):
    prod = {o: t["name"] for t in targets for o in t["outputs"]}
    return {t["name"]: sorted({prod[i] for i in t["inputs"] if i in prod}) for t in targets}


def tracked(p):
    try:
        return json.load(open(p.path(".gwf/slurm-backend-tracked.json")))
    except FileNotFoundError:
        return {}


def semantic(snapshot):
    """project tree with the tracked-jobs / spec-hash files read as JSON (absent == empty)"""
    s = dict(snapshot)
    out = {"tracked": json.loads(s.pop(".gwf/slurm-backend-tracked.json", b"{}") or b"{}"),
           "hashes": json.loads(s.pop(".gwf/spec-hashes.json", b"{}") or b"{}")}
    out["files"] = {k: v for k, v in s.items()}
    return out


def prepare(p, targets, existing, now):
    p.touch("src.txt", now - 1000)
    for i, rel in enumerate(existing):
        p.touch(rel, now - 500 + i)


def check_previews_and_run(name, targets, existing, pre_jobs, problems, config=None, patterns=()):
    """C05 + C02 on one scenario. pre_jobs: {target: slurm state} already tracked before the commands.
    patterns: names / globs given to dry-run and run (the requested targets); status is taken without them, since
    the state of a target does not depend on the selection, and restricted to the cone of the matching targets."""
    p = Project(targets, config=config)
    try:
        now = time.time()
        prepare(p, targets, existing, now)
        if pre_jobs:
            s = p.slurm()
            tr = {}
            for tn, stt in pre_jobs.items():
                jid = str(s["next"])
                s["next"] += 1
                s["jobs"][jid] = {"name": tn, "deps": [], "state": stt, "script": "", "args": []}
                tr[tn] = jid
            p.set_slurm(s)
            os.makedirs(p.path(".gwf"), exist_ok=True)
            json.dump(tr, open(p.path(".gwf/slurm-backend-tracked.json"), "w"))
        # logs: of a target that no longer exists, and of a current target (C10)
        for rel in (".gwf/logs/gone.stdout", ".gwf/logs/gone.stderr", f".gwf/logs/{targets[0]['name']}.stdout"):
            p.touch(rel)
        before = semantic(p.snapshot())
        calls0 = len([c for c in p.slurm()["calls"] if c[0] in ("sbatch", "scancel")])
        code, out = p.gwf("status")
        if code != 0:
            problems.append(f"{name}: gwf status failed: {out[-300:]}")
            return
        rows = parse_status(out)
        code, out = p.gwf("run", "--dry-run", *patterns)
        would = [l.split()[-1] for l in out.splitlines() if l.startswith("Would submit")]
        after = semantic(p.snapshot())
        if after != before:
            problems.append(f"{name}: status / run --dry-run changed the project: {sorted(set(map(str, after.items())) ^ set(map(str, before.items())))[:4]}")
        calls1 = len([c for c in p.slurm()["calls"] if c[0] in ("sbatch", "scancel")])
        if calls1 != calls0:
            problems.append(f"{name}: status / run --dry-run called sbatch or scancel")
        expected = sorted(t for t, st in rows.items() if st in NEEDS)
        if patterns:
            import fnmatch
            deps_ = deps_of(targets)
            cone, todo = set(), [t["name"] for t in targets if any(fnmatch.fnmatch(t["name"], q) for q in patterns)]
            while todo:
                n_ = todo.pop()
                if n_ not in cone:
                    cone.add(n_)
                    todo.extend(deps_[n_])
            expected = [t for t in expected if t in cone]
        if sorted(would) != expected:
            problems.append(f"{name}: status shows {expected} as shouldrun/failed/cancelled, dry run would submit {sorted(would)}")
        code, out = p.gwf("run", *patterns)
        logs = sorted(os.listdir(p.path(".gwf/logs")))
        if "gone.stdout" in logs or "gone.stderr" in logs or f"{targets[0]['name']}.stdout" not in logs:
            problems.append(f"{name}: after gwf run the log directory holds {logs}: logs of removed targets must go, "
                            f"logs of current targets must stay (clean_logs is on by default)")
        s = p.slurm()
        new = [(jid, j) for jid, j in s["jobs"].items() if j["script"]]
        submitted = [j["name"] for _, j in new]
        if sorted(submitted) != expected:
            problems.append(f"{name}: status shows {expected}, run submitted {sorted(submitted)}")
        deps = deps_of(targets)
        tr = tracked(p)
        for jid, j in new:
            want = sorted(tr[d] for d in deps[j["name"]] if rows.get(d) != "completed")
            if sorted(j["deps"]) != want:
                problems.append(f"{name}: job of {j['name']} submitted with prerequisites {sorted(j['deps'])}, "
                                f"incomplete direct dependencies have ids {want}")
            if any(int(d) > int(jid) for d in j["deps"]):
                problems.append(f"{name}: {j['name']} submitted before a prerequisite")
        for tn in submitted:
            if tr.get(tn) not in [jid for jid, j in new if j["name"] == tn]:
                problems.append(f"{name}: tracked id of {tn} is not the id sbatch returned")
        if patterns:
            return
        # C06: after the cluster drains everything with outputs is completed and a re-run is a no-op
        p.drain()
        rows2 = parse_status(p.gwf("status")[1])
        for t in targets:
            if t["outputs"] and rows2.get(t["name"]) != "completed" and not any(
                    v in ("F", "CA", "TO") for k, v in (pre_jobs or {}).items() if False):
                problems.append(f"{name}: after a successful run {t['name']} is {rows2.get(t['name'])}")
        n0 = len([c for c in p.slurm()["calls"] if c[0] == "sbatch"])
        p.gwf("run")
        again = [c for c in p.slurm()["calls"] if c[0] == "sbatch"][n0:]
        resub = [j["name"] for jid, j in p.slurm()["jobs"].items() if j["state"] == "PD"]
        bad = [n for n in resub if any(t["name"] == n and t["outputs"] for t in targets)]
        if bad:
            problems.append(f"{name}: second run re-submitted completed targets {bad}")
    finally:
        p.close()


def check_interrupted(name, targets, fail_at, problems):
    """C09: the k-th sbatch fails; the next run must neither forget nor duplicate accepted jobs"""
    p = Project(targets)
    try:
        prepare(p, targets, [], time.time())
        code, out = p.gwf("run", fail_submit=str(fail_at))
        s = p.slurm()
        accepted = {j["name"]: jid for jid, j in s["jobs"].items()}
        tr = tracked(p)
        if tr != accepted:
            problems.append(f"{name}: after sbatch #{fail_at} failed the tracked file holds {tr}, the scheduler accepted {accepted}")
        code, out = p.gwf("status")
        if code != 0:
            problems.append(f"{name}: the invocation after the interrupted run does not start: {out[-200:]}")
        p.gwf("run")
        s = p.slurm()
        names = [j["name"] for j in s["jobs"].values()]
        dup = sorted({n for n in names if names.count(n) > 1})
        if dup:
            problems.append(f"{name}: after sbatch #{fail_at} failed, the next run submitted a second job for {dup}")
        missing = sorted(set(t["name"] for t in targets) - set(names))
        if missing:
            problems.append(f"{name}: targets {missing} were never submitted by the run after the interruption")
        deps = deps_of(targets)
        byname = {j["name"]: jid for jid, j in s["jobs"].items()}
        for jid, j in s["jobs"].items():
            if sorted(j["deps"]) != sorted(byname[d] for d in deps[j["name"]]):
                problems.append(f"{name}: {j['name']} held on {j['deps']}, its dependencies' accepted jobs are "
                                f"{[byname[d] for d in deps[j['name']]]}")
    finally:
        p.close()


def run_c05(seed, focus):
    problems, tried = [], 0
    for wname, targets in WORKFLOWS.items():
        outs = [o for t in targets for o in t["outputs"]]
        scenarios = [([], {}), (outs, {}), (outs[:1], {}), (outs[1:], {})]
        first, last = targets[0]["name"], targets[-1]["name"]
        scenarios += [([], {first: "PD"}), (outs, {first: "F"}), (outs, {last: "CA"}), ([], {first: "R", last: "TO"}),
                      (outs[:1], {first: "CD"})]
        for existing, pre in scenarios:
            tried += 1
            check_previews_and_run(f"{wname}/existing={existing}/jobs={pre}", targets, existing, pre, problems)
            if problems:
                return result(problems, tried, "status/dry-run/run agree, previews change nothing, re-run is a no-op")
        # requested targets: a name, a glob over several, a pattern matching nothing (then nothing at all is submitted)
        for pats in (("nomatch*",), (targets[-1]["name"],), (targets[0]["name"], "nomatch"), ("*",), ("[ab]",), ("[!a]", "?")):
            tried += 1
            check_previews_and_run(f"{wname}/requested={list(pats)}", targets, outs[:1], {}, problems, patterns=pats)
            if problems:
                return result(problems, tried, "status/dry-run/run agree, previews change nothing, re-run is a no-op")
        # the same with spec hashing switched on: previews must not record (or erase) a hash either
        for existing, pre in scenarios[:3] + scenarios[5:6]:
            tried += 1
            check_previews_and_run(f"{wname}/spec hashes on/existing={existing}/jobs={pre}", targets, existing, pre, problems,
                                   config={"use_spec_hashes": True})
            if problems:
                return result(problems, tried, "status/dry-run/run agree, previews change nothing, re-run is a no-op")
    return result(problems, tried, "status/dry-run/run agree")


def run_c06(seed, focus):
    """C06 second sentence: after everything is complete, modifying one source or deleting one output makes the next
    run submit exactly the consumers / the producer and everything downstream (plus targets without outputs)"""
    problems, tried = [], 0
    for wname, targets in WORKFLOWS.items():
        deps = deps_of(targets)
        dependents = {t["name"]: {u for u, ds in deps.items() if t["name"] in ds} for t in targets}

        def up(names):
            out, todo = set(), list(names)
            while todo:
                n = todo.pop()
                if n not in out:
                    out.add(n)
                    todo.extend(dependents[n])
            return out

        # "modify-link": src.txt is a symbolic link (with an old time of its own) and the file it points to is modified:
        # the consumers must see the change of the file, not the unchanged link (S120)
        perturbations = [("modify", "src.txt"), ("modify-link", "src.txt")] + [("delete", o) for t in targets for o in t["outputs"]]
        for kind, f in perturbations:
            tried += 1
            p = Project(targets)
            try:
                prepare(p, targets, [], time.time() - 5000)
                if kind == "modify-link":
                    old = os.stat(p.path("src.txt")).st_mtime
                    os.rename(p.path("src.txt"), p.path("raw-src.txt"))
                    os.symlink("raw-src.txt", p.path("src.txt"))
                    os.utime(p.path("src.txt"), (old, old), follow_symlinks=False)
                p.gwf("run")
                p.drain()
                rows = parse_status(p.gwf("status")[1])
                n0 = len(p.slurm()["jobs"])
                if kind in ("modify", "modify-link"):
                    if not any("src.txt" in t["inputs"] for t in targets):
                        continue
                    p.touch("src.txt", time.time() + 100000)
                    direct = {t["name"] for t in targets if "src.txt" in t["inputs"]}
                else:
                    os.unlink(p.path(f))
                    direct = {t["name"] for t in targets if f in t["outputs"]}
                p.gwf("run")
                jobs = p.slurm()["jobs"]
                new = sorted(j["name"] for jid, j in jobs.items() if int(jid) >= 1000 + n0)
                want = sorted(up(direct) | {t["name"] for t in targets if not t["outputs"]})
                if new != want:
                    problems.append(f"{wname}: after everything completed, {kind} {f}: the next run submitted {new}, expected {want}")
            finally:
                p.close()
            if problems:
                return result(problems, tried, "re-run after one change")
    return result(problems, tried, "re-run after one change")


def run_c18(seed, focus):
    """spec hashes: recorded exactly on accepted submission / touch, erased by clean, untouched by previews"""
    problems, tried = [], 0
    import hashlib
    sha = lambda t: hashlib.sha1(t.get("spec", "echo " + t["name"]).encode()).hexdigest()
    hashes = lambda p: json.load(open(p.path(".gwf/spec-hashes.json"))) if os.path.exists(p.path(".gwf/spec-hashes.json")) else {}
    for wname in ("chain", "diamond"):
        targets = WORKFLOWS[wname]
        for fail in ("", "2"):
            tried += 1
            p = Project(targets, config={"use_spec_hashes": True})
            try:
                prepare(p, targets, [], time.time())
                p.gwf("status")
                p.gwf("run", "--dry-run")
                if hashes(p):
                    problems.append(f"{wname}: status / dry run recorded spec hashes {hashes(p)}")
                p.gwf("run", fail_submit=fail)
                accepted = {j["name"] for j in p.slurm()["jobs"].values()}
                want = {t["name"]: sha(t) for t in targets if t["name"] in accepted}
                if hashes(p) != want:
                    problems.append(f"{wname}: sbatch #{fail or '-'} rejected; recorded hashes are for {sorted(hashes(p))}, "
                                    f"accepted submissions are {sorted(want)}")
                p.gwf("run")
                p.drain()
                rows = parse_status(p.gwf("status")[1])
                if any(v != "completed" for k, v in rows.items() if any(t["name"] == k and t["outputs"] for t in targets)):
                    problems.append(f"{wname}: with spec hashes on, after a successful run status is {rows}")
                p.gwf("clean", "--all", targets[0]["name"])
                if targets[0]["name"] in hashes(p):
                    problems.append(f"{wname}: clean did not erase the spec hash of {targets[0]['name']}")
                p.gwf("touch")
                if hashes(p) != {t["name"]: sha(t) for t in targets}:
                    problems.append(f"{wname}: after touch the recorded hashes are {hashes(p)}")
            finally:
                p.close()
            if problems:
                return result(problems, tried, "spec-hashes")
        # hashing off (the default, or switched off with any value `gwf config set` stores as false / 0): nothing is recorded
        for off in (None, "no", "false", "0"):
            tried += 1
            p = Project(targets)
            try:
                prepare(p, targets, [], time.time())
                if off is not None:
                    p.gwf("config", "set", "use_spec_hashes", off)
                p.gwf("run")
                p.gwf("touch")
                if hashes(p):
                    problems.append(f"{wname}: spec hashes recorded although use_spec_hashes is "
                                    f"{'unset' if off is None else 'set to ' + off}: {hashes(p)}")
            finally:
                p.close()
            if problems:
                return result(problems, tried, "spec-hashes")
    return result(problems, tried, "spec-hashes")


TEMPLATE_WF = """
from gwf import Workflow, AnonymousTarget
gwf = Workflow()

def conv(path):
    return AnonymousTarget(inputs=[path], outputs=[path + '.out'], options={}, spec='echo conv')

gwf.target('direct', inputs=['src.txt'], outputs=['direct.txt']) << 'echo direct'
gwf.target_from_template('tpl', conv('src.txt'))
mapped = gwf.map(conv, ['m1.txt', 'm2.txt', 'm3.txt'])
gwf.map(conv, ['n1.txt', 'n2.txt'], name='named')
"""


def check_map_api(problems):
    """C19, last clause, against the real Workflow.map: one target per item, deterministic distinct names in every
    naming mode; a name that is taken (in the workflow, or earlier in the same call) is rejected, never overwritten"""
    from gwf import Workflow, AnonymousTarget
    from gwf.exceptions import GWFError

    def tpl(path):
        return AnonymousTarget(inputs=[path], outputs=[path + ".out"], options={}, spec="echo x")

    class Callable_:
        def __call__(self, path):
            return tpl(path)

    tried = 0
    # names: identifier-like ASCII strings only. Every code point of the Basic Multilingual Plane is tried as the whole
    # name, as first and as later character through the real validation (bounded counterpart of the proved contract)
    import re
    from gwf.utils import is_valid_name
    ascii_name = re.compile(r"[A-Za-z_][A-Za-z0-9._]*\Z")
    wrong = []
    for cp in range(0x10000):
        ch = chr(cp)
        for cand in (ch, ch + "a", "a" + ch, "a" + ch + "b"):
            tried += 1
            try:
                got = bool(is_valid_name(cand))
            except Exception:
                got = False
            if got != bool(ascii_name.match(cand)):
                wrong.append(cand)
    for extra in ("a\n", "\na", "a b", "", "1a", "a.b", "_", "a-b", "a\x00"):
        tried += 1
        if bool(is_valid_name(extra)) != bool(ascii_name.match(extra)):
            wrong.append(extra)
    # a name that is not a string at all (a naming function that forgot its return, a Path, bytes) is rejected at definition
    import pathlib
    from gwf import Target as _T
    for cand in (None, True, 0, 12, pathlib.Path("Foo"), b"Foo", ("a",), 1.5):
        tried += 1
        try:
            _T(name=cand, inputs=[], outputs=[], options={}, working_dir="/w")
            wrong.append(repr(cand))
        except Exception:
            pass
    if wrong:
        problems.append(f"names: is_valid_name disagrees with 'identifier-like' ([A-Za-z_][A-Za-z0-9._]*) on "
                        f"{len(wrong)} strings, e.g. {[w.encode('unicode_escape').decode() for w in wrong[:6]]}")
        return tried
    items = ["run1/s1.fq", "run1/s2.fq", "run2/s1.fq", "run2/s3.fq"]
    stem = lambda idx, t: "align_" + os.path.basename(t.inputs[0])[:-3]
    full = lambda idx, t: "align_" + t.inputs[0].replace("/", "_")[:-3]
    modes = [("default naming", tpl, None, [f"tpl_{i}" for i in range(4)]),
             ("callable instance", Callable_(), None, [f"Callable__{i}" for i in range(4)]),
             ("string naming", tpl, "foo", [f"foo_{i}" for i in range(4)]),
             ("naming function", tpl, full, ["align_run1_s1", "align_run1_s2", "align_run2_s1", "align_run2_s3"]),
             ("naming function with a repeated name", tpl, stem, None)]
    for label, f, name, want in modes:
        for pre in ((), ("tpl_1", "foo_2", "Callable__0", "align_run2_s1", "align_s3")):
            tried += 1
            wf = Workflow(working_dir="/w")
            for nm in pre:
                wf.target(nm, inputs=[], outputs=[]) << "echo pre"
            before = dict(wf.targets)
            clash = want is None or any(w in pre for w in want)
            try:
                res = wf.map(f, items, name=name)
            except GWFError as e:
                if not clash:
                    problems.append(f"map ({label}, existing targets {list(pre)}): rejected although all names are free: {e}")
                elif any(wf.targets.get(k) is not v for k, v in before.items()):
                    problems.append(f"map ({label}): a rejected map replaced an existing target")
                continue
            except Exception as e:
                problems.append(f"map ({label}, existing targets {list(pre)}): raised {type(e).__name__}: {e}")
                continue
            names = [t.name for t in res]
            if clash:
                problems.append(f"map ({label}, existing targets {list(pre)}) over {len(items)} items was accepted although "
                                f"a name is taken twice; it returned {names}; the workflow holds {sorted(wf.targets)}")
                continue
            if names != want or len(res) != len(items):
                problems.append(f"map ({label}) returned targets {names}, expected one per item: {want}")
            if sorted(wf.targets) != sorted(list(pre) + want) or any(wf.targets[t.name] is not t for t in res):
                problems.append(f"map ({label}): the workflow holds {sorted(wf.targets)}, expected {sorted(list(pre) + want)}")
            for t, it in zip(res, items):
                if list(t.inputs) != [it] or t.working_dir != "/w":
                    problems.append(f"map ({label}): target {t.name} has inputs {t.inputs} in {t.working_dir}, item was {it!r}")
    return tried


def run_c04_sizes(seed, focus):
    """C04, last clause (bounded): workflows of any size: the commands terminate without crashing on an empty workflow,
    a single target, a selection matching nothing, and (replay/enum_deep.py) one chain of thousands of targets"""
    problems, tried = [], 0
    sources = {"empty workflow": "from gwf import Workflow\ngwf = Workflow()\n",
               "one target": "from gwf import Workflow\ngwf = Workflow()\n"
                             "gwf.target('a', inputs=[], outputs=['a.txt']) << 'echo'\n"}
    commands = [("status",), ("status", "-f", "summary"), ("status", "nomatch*"), ("status", "-f", "summary", "nomatch*"),
                ("status", "--endpoints"), ("run", "--dry-run"), ("run", "--dry-run", "nomatch*"), ("info",),
                ("info", "-f", "pretty"), ("touch",), ("clean", "--all", "-f"), ("cancel", "-f"), ("run",),
                ("status", "-f", "summary"), ("cancel", "-f")]
    for label, src in sources.items():
        p = Project([], source=src)
        try:
            for cmd in commands:
                tried += 1
                code, out = p.gwf(*cmd)
                if code != 0:
                    problems.append(f"{label}: `gwf {' '.join(cmd)}` ended with exit status {code}: {out.strip()[-160:]}")
        finally:
            p.close()
    if problems:
        return result(problems, tried, "workflow sizes")
    from replay import enum_deep
    r = enum_deep.replay(None, None, None, seed)
    r["candidates_tried"] = r.get("candidates_tried", 0) + tried
    if not r["failed_on_real_code"]:
        r["bound"] = "empty and single-target workflows through 15 command lines; " + r["bound"]
    return r


def run_c03_info(seed, focus):
    """C03, last clause: `gwf info` reports the same relations as the graph: for every target the dependencies are the
    producers of its inputs (whatever the spelling), the dependents the exact inverse"""
    problems, tried = [], 0
    spelled = [T("a", [], ["a.txt"]), T("b", ["./a.txt"], ["sub/../b.txt"]), T("c", ["b.txt", "sub/../a.txt"], ["c.txt"]),
               T("lone", [], [])]
    for wname, targets in list(WORKFLOWS.items()) + [("spelled", spelled)]:
        p = Project(targets)
        try:
            prepare(p, targets, [], time.time())
            norm = lambda x: os.path.normpath(os.path.join(p.dir, x))
            prod = {norm(o): t["name"] for t in targets for o in t["outputs"]}
            deps = {t["name"]: sorted({prod[norm(i)] for i in t["inputs"] if norm(i) in prod}) for t in targets}
            inv = {t["name"]: sorted(u for u, ds in deps.items() if t["name"] in ds) for t in targets}
            for sel in [()] + [(t["name"],) for t in targets]:
                tried += 1
                code, out = p.gwf("info", *sel)
                try:
                    obj = json.loads(out[out.index("{"):])
                except ValueError:
                    problems.append(f"{wname}: gwf info {' '.join(sel)} did not print JSON (exit {code}): {out[-200:]}")
                    break
                want_names = sorted(sel) if sel else sorted(deps)
                if sorted(obj) != want_names:
                    problems.append(f"{wname}: gwf info {' '.join(sel)} describes {sorted(obj)}, selected {want_names}")
                for nm, rec in obj.items():
                    if sorted(rec.get("dependencies", [])) != deps.get(nm) or sorted(rec.get("dependents", [])) != inv.get(nm):
                        problems.append(f"{wname}: gwf info reports {nm}: dependencies {sorted(rec.get('dependencies', []))} "
                                        f"dependents {sorted(rec.get('dependents', []))}; the path-induced relation gives "
                                        f"{deps.get(nm)} / {inv.get(nm)}")
                if problems:
                    break
        finally:
            p.close()
        if problems:
            break
    return result(problems, tried, "info relations")


SYMLINK_WF = """
import os
from gwf import Workflow
gwf = Workflow()
here = os.path.dirname(os.path.realpath(__file__))       # a common idiom for naming project files absolutely
gwf.target('make', inputs=['src.txt'], outputs=['table.txt']) << 'echo make'
gwf.target('use', inputs=[os.path.join(here, 'table.txt')], outputs=['report.txt']) << 'echo use'
"""


def check_symlinked_project(problems):
    """C19: `-f` through a symbolic link to the project gives the same graph (edges, states, state directory) as
    running inside the project"""
    tried = 0
    p = Project([], source=SYMLINK_WF)
    holder = tempfile.mkdtemp(prefix="gwfverif-")
    try:
        p.touch("src.txt", time.time() - 1000)
        link = os.path.join(holder, "proj")
        os.symlink(p.dir, link)
        views = {}
        for label, cwd, farg in (("inside the project", p.dir, None), ("-f <link>/workflow.py", holder, os.path.join(link, "workflow.py")),
                                 ("-f proj/workflow.py from the directory holding the link", holder, "proj/workflow.py"),
                                 ("inside the project entered through the link", link, None)):
            tried += 1
            code, out = p.gwf("info", cwd=cwd, file_arg=farg)
            try:
                obj = json.loads(out[out.index("{"):])
                views[label] = {k: (sorted(v["dependencies"]), sorted(v["dependents"])) for k, v in obj.items()}
            except ValueError:
                views[label] = f"failed (exit {code}): {out.strip()[-160:]}"
            if os.path.exists(os.path.join(holder, ".gwf")):
                problems.append(f"symlink: {label}: a .gwf directory was created next to the link instead of in the project")
        base = views["inside the project"]
        if base != {"make": ([], ["use"]), "use": (["make"], [])}:
            problems.append(f"symlink: inside the project the graph is {base}")
        for label, v in views.items():
            if v != base:
                problems.append(f"symlink: {label}: gwf info gives {v}, inside the project it gives {base}")
    finally:
        p.close()
        shutil.rmtree(holder, ignore_errors=True)
    return tried


def run_c19(seed, focus):
    """C19: paths mean the same wherever gwf is invoked from; map names are distinct and deterministic;
    the workflow file is found in the nearest ancestor; the state directory lives next to it"""
    problems, tried = [], 0
    tried += check_map_api(problems)
    if problems:
        return result(problems, tried, "map naming")
    p = Project([], source=TEMPLATE_WF)
    try:
        for f in ("src.txt", "m1.txt", "m2.txt", "m3.txt", "n1.txt", "n2.txt"):
            p.touch(f, time.time() - 1000)
        for f in ("direct.txt", "src.txt.out", "m1.txt.out", "m2.txt.out", "m3.txt.out", "n1.txt.out", "n2.txt.out"):
            p.touch(f, time.time() - 10)
        os.makedirs(p.path("sub/deeper"))
        other = tempfile.mkdtemp(prefix="gwfverif-")
        views = {}
        for label, cwd, farg in (("project root", p.dir, None), ("subdirectory", p.path("sub/deeper"), None),
                                 ("elsewhere with -f", other, "ABS")):
            tried += 1
            code, out = p.gwf("status", cwd=cwd, file_arg=farg)
            views[label] = (code, parse_status(out), out[-300:] if code else "")
            if os.path.exists(os.path.join(cwd, ".gwf")) and os.path.realpath(cwd) != os.path.realpath(p.dir):
                problems.append(f"{label}: a .gwf state directory was created in the invoking directory {cwd}")
        base = views["project root"]
        want = {"direct", "tpl", "conv_0", "conv_1", "conv_2", "named_0", "named_1"}
        if set(base[1]) != want:
            problems.append(f"map / template naming: targets are {sorted(base[1])}, expected {sorted(want)}")
        if any(v != "completed" for v in base[1].values()):
            problems.append(f"from the project root every target should be completed (all files are in the workflow's "
                            f"directory): {base[1]}")
        for label, v in views.items():
            if v[0] != 0:
                problems.append(f"{label}: gwf status failed: {v[2]}")
            elif v[1] != base[1]:
                problems.append(f"{label}: status differs from the project root: {v[1]} vs {base[1]}")
        os.rmdir(other)
        # the project reached through a symbolic link (home -> project storage): same graph and states
        tried += check_symlinked_project(problems)
        # nearest ancestor wins
        open(p.path("sub/workflow.py"), "w").write("from gwf import Workflow\ngwf = Workflow()\ngwf.target('inner', inputs=[], outputs=[]) << 'x'\n")
        tried += 1
        code, out = p.gwf("status", cwd=p.path("sub/deeper"), file_arg=None)
        if set(parse_status(out)) != {"inner"}:
            problems.append(f"find_workflow: from sub/deeper the nearest workflow.py (sub/) should be used, got targets {sorted(parse_status(out))}")
    finally:
        p.close()
    return result(problems, tried, "invocation-directory independence, map naming, workflow file search")


def run_c20_cli(seed, focus):
    """C20: flag over project configuration over default, through the real command line"""
    problems, tried = [], 0
    p = Project(WORKFLOWS["single"])
    try:
        prepare(p, WORKFLOWS["single"], [], time.time())
        # round trip through separate invocations
        for k, v, shown in (("x", "7", "7"), ("flag", "no", "False"), ("backend.slurm.log_mode", "merged", "merged"),
                            ("zero", "0", "0")):
            tried += 1
            p.gwf("config", "set", k, v)
            code, out = p.gwf("config", "get", k)
            if out.strip() != shown:
                problems.append(f"config set {k} {v}; config get {k} printed {out.strip()!r}, expected {shown!r}")
        p.gwf("config", "unset", "x")
        code, out = p.gwf("config", "unset", "never_set")
        if code != 0:
            problems.append(f"config unset of a key that is not set failed: {out[-200:]}")
        if not os.path.exists(p.path(".gwfconf.json")):
            problems.append("the configuration file is not next to the workflow file")
        # verbosity: project configuration over default, flag over configuration
        tried += 1
        p.gwf("config", "set", "verbose", "warning")
        code, out = p.gwf("run", "--dry-run")
        if "Would submit" in out:
            problems.append("verbose=warning in the project configuration, yet info-level lines ('Would submit ...') are printed")
        code, out = p.gwf("run", "--dry-run", global_opts=("-b", "slurm", "-v", "info"))
        if "Would submit" not in out:
            problems.append("-v info on the command line must win over verbose=warning in the configuration")
        # colours: --no-color / --use-color over no_color in the project configuration over the default (colours on;
        # NO_COLOR is not set here). gwf switches colours off by replacing click._compat.isatty: that is what is observed
        import click
        real_isatty = click._compat.isatty
        saved_env = os.environ.pop("NO_COLOR", None)
        try:
            for conf in (None, "yes", "no"):
                if conf is None:
                    p.gwf("config", "unset", "no_color")
                else:
                    p.gwf("config", "set", "no_color", conf)
                for flag in (None, "--no-color", "--use-color"):
                    tried += 1
                    click._compat.isatty = real_isatty
                    p.gwf("status", global_opts=("-b", "slurm") + ((flag,) if flag else ()))
                    off = click._compat.isatty is not real_isatty
                    want_off = (flag == "--no-color") if flag else (conf == "yes")
                    if off != want_off:
                        problems.append(f"colours: flag {flag or '(none)'}, configuration no_color={conf or '(unset)'}: colours are "
                                        f"{'off' if off else 'on'}, expected {'off' if want_off else 'on'} "
                                        f"(flag over project configuration over default)")
        finally:
            click._compat.isatty = real_isatty
            if saved_env is not None:
                os.environ["NO_COLOR"] = saved_env
        p.gwf("config", "unset", "no_color")
        # a backend option from the project configuration reaches the backend, also when its value is false:
        # with accounting switched off the Slurm backend must not consult sacct
        tried += 1
        json.dump({"a": "1000"}, open(p.path(".gwf/slurm-backend-tracked.json"), "w"))
        for val, expect_sacct in (("yes", True), ("no", False)):
            p.gwf("config", "set", "backend.slurm.accounting_enabled", val)
            n0 = len([c for c in p.slurm()["calls"] if c[0] == "sacct"])
            p.gwf("status")
            n1 = len([c for c in p.slurm()["calls"] if c[0] == "sacct"])
            if (n1 > n0) != expect_sacct:
                problems.append(f"backend.slurm.accounting_enabled={val} in the project configuration: sacct was "
                                f"{'called' if n1 > n0 else 'not called'} by `gwf status` (the option did not reach the backend)")
        p.gwf("config", "unset", "backend.slurm.accounting_enabled")
        os.unlink(p.path(".gwf/slurm-backend-tracked.json"))
        # backend: flag over configuration
        tried += 1
        p.gwf("config", "set", "backend", "slurm")
        code, out = p.gwf("status", global_opts=())
        if code != 0:
            problems.append(f"backend=slurm from the project configuration was not used: {out[-200:]}")
    finally:
        p.close()
    return result(problems, tried, "configuration through the command line")


def run_c09(seed, focus):
    problems, tried = [], 0
    for wname in ("chain", "diamond"):
        for k in (1, 2, 3):
            tried += 1
            check_interrupted(f"{wname}/sbatch#{k} fails", WORKFLOWS[wname], k, problems)
            if problems:
                return result(problems, tried, "interrupted run")
    return result(problems, tried, "interrupted run")


def run_c15(seed, focus):
    """gwf clean: only unprotected declared outputs of the selected (non-endpoint unless --all) targets"""
    problems, tried = [], 0
    tried += check_clean_directory_output(problems)
    if not problems:
        tried += check_clean_protect_is_per_target(problems)
    if problems:
        return result(problems, tried, "clean")
    for wname, targets in WORKFLOWS.items():
        deps = deps_of(targets)
        dependents = {t["name"]: [u for u, ds in deps.items() if t["name"] in ds] for t in targets}
        for args in ([], ["--all"], ["a"], ["--all", "a"], ["b", "c"], ["--all", "*"], ["nomatch"], ["#hashes"], ["#hashes", "--all"]):
            hashing = "#hashes" in args
            args = [a for a in args if a != "#hashes"]
            for answer in ("y\n", "n\n"):
                pats = [a for a in args if not a.startswith("-")]
                prompt = not pats
                if not prompt and answer == "n\n":
                    continue
                tried += 1
                p = Project(targets, config={"use_spec_hashes": True} if hashing else None)
                try:
                    now = time.time()
                    prepare(p, targets, [o for t in targets for o in t["outputs"]], now)
                    p.touch("unrelated.txt")
                    p.touch(".gwf/logs/a.stdout")
                    if hashing:
                        p.gwf("touch")                    # records the current spec hash of every target
                    before = p.snapshot()
                    code, out = p.gwf("clean", *args, input=answer)
                    after = p.snapshot()
                    if hashing and prompt and answer == "n\n" and semantic(after) != semantic(before):
                        problems.append(f"{wname} (spec hashes on) clean {args} declined, yet the project changed: "
                                        f"hashes {semantic(before)['hashes'].keys() ^ semantic(after)['hashes'].keys()} / "
                                        f"files {sorted(set(before) ^ set(after))}")
                    removed = sorted(set(before) - set(after))
                    import fnmatch
                    sel = [t for t in targets if (not pats or any(fnmatch.fnmatch(t["name"], q) for q in pats))
                           and ("--all" in args or dependents[t["name"]])]
                    want = sorted(o for t in sel for o in t["outputs"]
                                  if os.path.normpath(o) not in [os.path.normpath(x) for x in t.get("protect", [])])
                    if prompt and answer == "n\n":
                        want = []
                        if {k: v for k, v in after.items() if not k.startswith(".gwf/")} != \
                                {k: v for k, v in before.items() if not k.startswith(".gwf/")} or removed:
                            problems.append(f"{wname} clean {args} declined: project changed {removed}")
                    if removed != want:
                        problems.append(f"{wname}: gwf clean {' '.join(args)} removed {removed}, the unprotected outputs of the "
                                        f"selected targets are {want}")
                finally:
                    p.close()
                if problems:
                    return result(problems, tried, "clean")
    return result(problems, tried, "clean")


def check_clean_protect_is_per_target(problems):
    """C15: 'not protected by THAT target': an unprotected output of a selected target goes even when another selected
    target lists the same file in its own protect clause (different spelling included)"""
    targets = [T("a", ["src.txt"], ["a.txt"]), T("b", ["a.txt"], ["b.txt", "b.log"], protect=["./b.log", "sub/../a.txt"]),
               T("c", ["b.txt"], ["c.txt"])]
    tried = 0
    for args in (["-f"], ["--all", "-f"], ["-f", "a", "b"]):
        tried += 1
        p = Project(targets)
        try:
            now = time.time()
            prepare(p, targets, ["a.txt", "b.txt", "b.log", "c.txt"], now)
            before = p.snapshot()
            p.gwf("clean", *args)
            removed = sorted(k for k in set(before) - set(p.snapshot()) if not k.startswith(".gwf"))
            want = ["a.txt", "b.txt"] + (["c.txt"] if "--all" in args else [])
            if removed != want:
                problems.append(f"protect: gwf clean {' '.join(args)} with b protecting its own b.log and (pointlessly) a's "
                                f"a.txt removed {removed}, expected {want}: protection applies to the protecting target's "
                                f"own outputs only")
        finally:
            p.close()
        if problems:
            break
    return tried


def check_clean_directory_output(problems):
    """C15: a declared output that is a DIRECTORY: whatever clean does with it, files inside it that are protected, that
    belong to an endpoint (without --all), that are source inputs or that are unrelated must survive"""
    targets = [T("mk", ["params.txt"], ["results", "results/model.bin", "plain.txt"], protect=["results/model.bin"]),
               T("report", ["results/model.bin", "results/params.yaml"], ["results/report.txt"])]
    tried = 0
    for args in (["-f"], ["--all", "-f"], ["-f", "mk"]):
        tried += 1
        p = Project(targets)
        try:
            now = time.time()
            p.touch("params.txt", now - 1000)
            for rel in ("results/model.bin", "results/report.txt", "results/params.yaml", "results/notes.md", "plain.txt"):
                p.touch(rel, now - 10)
            before = p.snapshot()
            code, out = p.gwf("clean", *args)
            after = p.snapshot()
            removed = sorted(set(before) - set(after))
            allowed = {"plain.txt"} | ({"results/report.txt"} if "--all" in args else set())
            bad = [r for r in removed if r not in allowed and not r.startswith(".gwf")]
            if bad:
                problems.append(f"directory output: gwf clean {' '.join(args)} removed {bad} (protected by the target, output of "
                                f"an endpoint, a source input or an unrelated file inside the declared output directory "
                                f"'results'); only {sorted(allowed)} may go")
        finally:
            p.close()
        if problems:
            break
    return tried


def check_touch_large_diamond(problems):
    """C16 on a cone that is larger than any small cache: a dependency shared by two long arms is touched once, before
    everything that depends on it (real touch_workflow, the order of Path.touch calls is recorded)"""
    import pathlib
    from gwf.core import Graph, Target
    from gwf.plugins.touch import touch_workflow
    n = 200
    ts = {"base": Target(name="base", inputs=[], outputs=["base.txt"], options={}, working_dir="/w")}
    for arm in ("l", "r"):
        prev = "base.txt"
        for i in range(n):
            nm = f"{arm}{i}"
            ts[nm] = Target(name=nm, inputs=[prev], outputs=[nm + ".txt"], options={}, working_dir="/w")
            prev = nm + ".txt"
    ts["top"] = Target(name="top", inputs=[f"l{n - 1}.txt", f"r{n - 1}.txt"], outputs=["top.txt"], options={}, working_dir="/w")

    class FS:
        def exists(self, p):
            return False

        def changed_at(self, p):
            raise FileNotFoundError(p)

    class NoHashes:
        def update(self, t):
            pass

    g = Graph.from_targets(ts, FS())
    real_touch, order = pathlib.Path.touch, []
    pathlib.Path.touch = lambda self, *a, **k: order.append(os.path.basename(str(self)))
    try:
        touch_workflow(g.endpoints(), g, NoHashes())
    finally:
        pathlib.Path.touch = real_touch
    pos = {}
    for i, f in enumerate(order):
        pos.setdefault(f, []).append(i)
    if sorted(pos) != sorted(t.name + ".txt" for t in ts.values()):
        problems.append(f"large diamond: touched {len(pos)} distinct files, the cone has {len(ts)} outputs")
    for t in ts.values():
        for i_ in t.inputs:
            dep = os.path.basename(i_)
            if dep in pos and (t.name + ".txt") in pos and max(pos[dep]) > min(pos[t.name + ".txt"]):
                problems.append(f"large diamond (two arms of {n} targets over one shared dependency): {dep} is touched again "
                                f"(call #{max(pos[dep])}) after its dependent {t.name}.txt (call #{min(pos[t.name + '.txt'])})")
                return 1
    return 1


def run_c16(seed, focus):
    """gwf touch: afterwards the cone looks completed; nothing outside is touched, contents are kept"""
    problems, tried = [], 0
    tried += check_touch_large_diamond(problems)
    if problems:
        return result(problems, tried, "touch")
    for wname, targets in WORKFLOWS.items():
        deps = deps_of(targets)
        for args in ([], [targets[-1]["name"]], [targets[0]["name"]], ["nomatch"]):
            allouts = [o for t in targets for o in t["outputs"]]
            for existing, stale in (([], False), (allouts[::2], False), (allouts, True), (allouts[:2], True)):
                tried += 1
                p = Project(targets)
                try:
                    now = time.time()
                    prepare(p, targets, existing, now)
                    for k_, rel in enumerate(existing):
                        open(p.path(rel), "w").write("content of " + rel)
                        # "stale": the first existing output is older than the source, later ones are newer than it
                        age = (2000 - 100 * k_) if stale else 300
                        os.utime(p.path(rel), (now - age, now - age))
                    p.touch("unrelated.txt", now - 700)
                    before = p.snapshot()
                    m0 = os.stat(p.path("unrelated.txt")).st_mtime
                    # the order of the touches is observed (they still happen): modification times only show the order
                    # when the clock ticks between two touches, the sequence of calls always does
                    import pathlib
                    real_touch, order = pathlib.Path.touch, []

                    def spy(self, *a, **k):
                        order.append(os.path.relpath(str(self), p.dir))
                        return real_touch(self, *a, **k)

                    pathlib.Path.touch = spy
                    try:
                        code, out = p.gwf("touch", *args)
                    finally:
                        pathlib.Path.touch = real_touch
                    if code != 0:
                        problems.append(f"{wname}: gwf touch {args} failed: {out[-200:]}")
                    byname = {t["name"]: t for t in targets}
                    for t in targets:
                        for d in deps[t["name"]]:
                            last_dep = max([i for i, f in enumerate(order) if f in byname[d]["outputs"]], default=None)
                            first_me = min([i for i, f in enumerate(order) if f in t["outputs"]], default=None)
                            if last_dep is not None and first_me is not None and last_dep > first_me:
                                problems.append(f"{wname}: gwf touch {args} touched in the order {order}: an output of {d} is "
                                                f"touched again after an output of its dependent {t['name']} (which then looks "
                                                f"older than its input)")
                    cone = set()

                    def reach(n):
                        if n not in cone:
                            cone.add(n)
                            for d in deps[n]:
                                reach(d)

                    for n in (args or [t["name"] for t in targets]):
                        if n in deps:                 # a name that matches nothing selects nothing
                            reach(n)
                    after = p.snapshot()
                    for rel, content in before.items():
                        if not rel.startswith(".gwf") and after.get(rel) != content:
                            problems.append(f"{wname}: touch changed the content of {rel}")
                    created = sorted(k for k in set(after) - set(before) if not k.startswith(".gwf"))
                    want_created = sorted(o for t in targets if t["name"] in cone for o in t["outputs"] if o not in before)
                    if created != want_created:
                        problems.append(f"{wname}: touch {args} created {created}, the missing outputs of the cone are {want_created}")
                    if os.stat(p.path("unrelated.txt")).st_mtime != m0:
                        problems.append(f"{wname}: touch changed the mtime of an unrelated file")
                    rows = parse_status(p.gwf("status")[1])
                    for t in targets:
                        if t["name"] in cone and t["outputs"] and rows.get(t["name"]) != "completed":
                            problems.append(f"{wname}: after touch {args}, {t['name']} is {rows.get(t['name'])}")
                finally:
                    p.close()
                if problems:
                    return result(problems, tried, "touch")
    return result(problems, tried, "touch")


def run_c17(seed, focus):
    """gwf cancel: exactly the latest jobs of the selected targets; one failure stops nothing else"""
    problems, tried = [], 0
    for wname in ("chain", "diamond"):
        targets = WORKFLOWS[wname]
        for args, answer in ((["-f"], None), (["a"], None), (["b", "c"], None), (["nomatch"], None), (["a", "c"], None),
                             (["-f", "nomatch"], None), (["nomatch"], "y\n"), (["-f", "A*", "nomatch*"], None),
                             ([], "y\n"), ([], "n\n")):
            for untracked in ((), ("a",), ("b",)):
                tried += 1
                p = Project(targets)
                try:
                    prepare(p, targets, [], time.time())
                    p.gwf("run")
                    tr = tracked(p)
                    for u in untracked:       # a target that was never submitted
                        tr.pop(u, None)
                    json.dump(tr, open(p.path(".gwf/slurm-backend-tracked.json"), "w"))
                    code, out = p.gwf("cancel", *args, input=answer)
                    calls = [c[-1] for c in p.slurm()["calls"] if c[0] == "scancel"]
                    import fnmatch
                    pats = [a for a in args if not a.startswith("-")]
                    sel = [t["name"] for t in targets if not pats or any(fnmatch.fnmatch(t["name"], q) for q in pats)]
                    if not pats and "-f" not in args and answer != "y\n":
                        sel = []                     # all targets only when the prompt is confirmed (or forced)
                    want = sorted(tr[n] for n in sel if n in tr)
                    if sorted(calls) != want:
                        problems.append(f"{wname}: gwf cancel {' '.join(args)} (untracked {untracked}) cancelled jobs {sorted(calls)}, "
                                        f"the selected targets' latest jobs are {want}")
                finally:
                    p.close()
                if problems:
                    return result(problems, tried, "cancel")
    return result(problems, tried, "cancel")


def result(problems, tried, what):
    if not problems:
        return {"failed_on_real_code": False, "candidates_tried": tried,
                "bound": f"{what}: workflows {sorted(WORKFLOWS)} (<= 4 targets), fixed scenarios per workflow"}
    return {"failed_on_real_code": True, "input": {"scenario": problems[0].split(":")[0]}, "observed": problems[:5],
            "candidates_tried": tried, "witness_class": "cli-" + what.split()[0].split("/")[0],
            "call": "real `gwf` CLI via click.testing.CliRunner on a temporary project with fake Slurm on PATH"}

"""Bounded refuter / CPython cross-check for the scheduler operations of the cluster backends (replay only):
real SlurmOps / SGEOps / LSFOps and utils.call against scripted fake scheduler commands on PATH; generated job
scripts are executed by bash from a foreign directory.
Bound: the scenarios below (ids, state codes and option sets from fixed lists)."""
import json
import os
import shutil
import subprocess
import tempfile

HERE = os.path.dirname(os.path.abspath(__file__))


class Env:
    def __init__(self):
        self.dir = tempfile.mkdtemp(prefix="gwfverif-")
        os.makedirs(os.path.join(self.dir, ".gwf", "logs"))
        self.journal = os.path.join(self.dir, "journal.json")
        self.script = os.path.join(self.dir, "script.json")
        self.old = {k: os.environ.get(k) for k in ("PATH", "FAKE_SCHED_JOURNAL", "FAKE_SCHED_SCRIPT")}
        os.environ["PATH"] = os.path.join(HERE, "fake_sched") + os.pathsep + os.environ.get("PATH", "")
        os.environ["FAKE_SCHED_JOURNAL"] = self.journal
        os.environ["FAKE_SCHED_SCRIPT"] = self.script
        self.outputs({})

    def outputs(self, d):
        json.dump(d, open(self.script, "w"))
        if os.path.exists(self.journal):
            os.unlink(self.journal)

    def calls(self):
        try:
            return json.load(open(self.journal))
        except FileNotFoundError:
            return []

    def close(self):
        for k, v in self.old.items():
            if v is None:
                os.environ.pop(k, None)
            else:
                os.environ[k] = v
        shutil.rmtree(self.dir, ignore_errors=True)


def target(env, name="t1", wd=None, spec="echo hello\n", **options):
    from gwf.core import Target
    return Target(name=name, inputs=[], outputs=[], options=options, working_dir=wd or env.dir, spec=spec)


def make_ops(env):
    from gwf.backends.slurm import SlurmOps, TARGET_DEFAULTS as SD
    from gwf.backends.sge import SGEOps, TARGET_DEFAULTS as GD
    from gwf.backends.lsf import LSFOps, TARGET_DEFAULTS as LD
    return {"slurm": (SlurmOps(env.dir, "full", True, target_defaults=SD), SD),
            "sge": (SGEOps(env.dir, target_defaults=GD), GD), "lsf": (LSFOps(env.dir, target_defaults=LD), LD)}


def check_submit(problems):
    """C07: argv and id parsing per backend"""
    env = Env()
    try:
        ops = make_ops(env)
        printed = {"slurm": ("sbatch", "4242\n"), "sge": ("qsub", "4242\n"),
                   "lsf": ("bsub", "Job <4242> is submitted to queue <normal>.\n")}
        want_args = {"slurm": lambda ids: ["--parsable"] + (["--dependency=afterok:" + ":".join(ids)] if ids else []),
                     "sge": lambda ids: ["-terse"] + (["-hold_jid", ",".join(ids)] if ids else []),
                     "lsf": lambda ids: (["-w", " && ".join(f"done({i})" for i in ids)] if ids else [])}
        for name, (o, defaults) in ops.items():
            for ids in ([], ["11"], ["11", "12", "13"]):
                cmd, out = printed[name]
                env.outputs({cmd: out})
                t = target(env, **{k: v for k, v in defaults.items() if v is not None})
                jid = o.submit_target(t, list(ids))
                if jid != "4242":
                    problems.append(f"{name}: {cmd} printed {out!r}, submit_target returned the id {jid!r} (the scheduler knows the job as '4242')")
                c = [c for c in env.calls() if c[0] == cmd]
                if len(c) != 1 or c[0][1] != want_args[name](ids):
                    problems.append(f"{name}: dependencies {ids} reached {cmd} as {[x[1] for x in c]}, required {want_args[name](ids)}")
                elif c[0][2] != o.compile_script(t):
                    problems.append(f"{name}: the script on {cmd}'s stdin is not compile_script(target)")
        # the id must round-trip into the next submission's prerequisite list
        from gwf.backends.base import TrackingBackend
        for name, (o, defaults) in ops.items():
            cmd, out = printed[name]
            env.outputs({cmd: [out, out.replace("4242", "4243")], "squeue": "", "sacct": "", "qstat": "<job_info></job_info>",
                         "bjobs": ""})
            be = TrackingBackend(env.dir, name=name + "x", ops=o)
            a, b = target(env, "a"), target(env, "b")
            a.options, b.options = ({k: v for k, v in defaults.items() if v is not None},) * 2
            be.submit(a, [])
            be.submit(b, [a])
            c = [c for c in env.calls() if c[0] == cmd]
            if c[1][1] != want_args[name](["4242"]):
                problems.append(f"{name}: the job of b is held on {c[1][1]}, the scheduler's id of a's job is '4242'")
    finally:
        env.close()


SQUEUE = {"PD": "SUBMITTED", "CF": "SUBMITTED", "R": "RUNNING", "CG": "RUNNING", "S": "RUNNING", "ST": "RUNNING",
          "F": "FAILED", "TO": "FAILED", "OOM": "FAILED", "NF": "FAILED", "BF": "FAILED", "DL": "FAILED",
          "CA": "CANCELLED", "CD": "COMPLETED"}
SACCT = {"PENDING": "SUBMITTED", "RUNNING": "RUNNING", "FAILED": "FAILED", "TIMEOUT": "FAILED", "OUT_OF_MEMORY": "FAILED",
         "NODE_FAIL": "FAILED", "BOOT_FAIL": "FAILED", "DEADLINE": "FAILED", "CANCELLED by 1000": "CANCELLED",
         "CANCELLED": "CANCELLED", "COMPLETED": "COMPLETED"}
BJOBS = {"PEND": "SUBMITTED", "RUN": "RUNNING", "DONE": "COMPLETED", "EXIT": "FAILED"}
# qstat(1) state letters: pending (qw), on hold (h), rescheduled (R, a modifier, not the running flag r), running (r),
# transferring (t). Error (E), deletion (d) and the suspended states are left out: the statement does not say how
# they should show
QSTAT = {"qw": "SUBMITTED", "hqw": "SUBMITTED", "hRwq": "SUBMITTED", "hRqw": "SUBMITTED", "Rq": "SUBMITTED",
         "hRq": "SUBMITTED", "r": "RUNNING", "t": "RUNNING", "Rr": "RUNNING", "Rt": "RUNNING"}


def check_states(problems):
    """C08: classification of documented state codes, squeue over sacct, no sacct when accounting is off"""
    from gwf.backends.base import BackendStatus as B
    from gwf.backends.slurm import SlurmOps, TARGET_DEFAULTS as SD
    env = Env()
    try:
        ops = make_ops(env)
        o = ops["slurm"][0]
        for code, want in SQUEUE.items():
            env.outputs({"squeue": f"7;{code}\n9;R\n", "sacct": "7|COMPLETED\n"})
            got = o.get_job_states(["7"])
            if got.get("7", B.UNKNOWN).name != want or "9" in got:
                problems.append(f"slurm: squeue lists job 7 as {code} (sacct: COMPLETED); reported {got}, expected {{'7': {want}}}")
        for state, want in SACCT.items():
            env.outputs({"squeue": "", "sacct": f"7|{state}\n"})
            got = o.get_job_states(["7"])
            if got.get("7", B.UNKNOWN).name != want:
                problems.append(f"slurm: sacct reports job 7 as {state}; reported {got}, expected {want}")
        off = SlurmOps(env.dir, "full", False, target_defaults=SD)
        env.outputs({"squeue": "", "sacct": "7|FAILED\n"})
        got = off.get_job_states(["7"])
        if any(c[0] == "sacct" for c in env.calls()) or got:
            problems.append(f"slurm: accounting disabled, yet sacct was consulted / states {got} reported")
        big = [str(i) for i in range(2500)]
        env.outputs({"squeue": "", "sacct": {"*": ""}})
        o.get_job_states(big)
        asked = [j for c in env.calls() if c[0] == "sacct" for j in c[1][-1].split(",")]
        if sorted(asked) != sorted(big):
            problems.append(f"slurm: {len(big)} tracked ids, sacct batches asked about {len(asked)} ids ({len(set(asked))} distinct)")
        lo = ops["lsf"][0]
        for code, want in BJOBS.items():
            env.outputs({"bjobs": code + "\n"})
            got = lo.get_job_states(["7"])
            if got.get("7", B.UNKNOWN).name != want:
                problems.append(f"lsf: bjobs reports {code}; reported {got}, expected {want}")
        go = ops["sge"][0]
        for code, want in QSTAT.items():
            xml = f"<job_info><queue_info><job_list><JB_job_number>7</JB_job_number><state>{code}</state></job_list></queue_info></job_info>"
            env.outputs({"qstat": xml})
            got = go.get_job_states(["7"])
            if got.get("7", B.UNKNOWN).name != want:
                problems.append(f"sge: qstat reports {code}; reported {got}, expected {want}")
    finally:
        env.close()


def _truth_outputs(truth):
    """scripted outputs of the status commands for a scheduler that knows exactly the jobs in `truth`
    (id -> 'R' | 'PD'), plus an unrelated job 9 of another user"""
    sq = "".join(f"{j};{s}\n" for j, s in truth.items()) + "9;R\n"
    lsf_code = {"R": "RUN", "PD": "PEND", "F": "EXIT"}
    xml = "<job_info><queue_info>" + "".join(
        f"<job_list><JB_job_number>{j}</JB_job_number><state>{'r' if s == 'R' else 'qw'}</state></job_list>"
        for j, s in [(j_, s_) for j_, s_ in truth.items() if s_ != "F"] + [("9", "R")]) + "</queue_info></job_info>"
    return {"squeue": sq, "sacct": "", "qstat": xml,
            "bjobs": {"__jobs__": {j: lsf_code[s] for j, s in truth.items()}}}


def check_job_tables(problems):
    """C08: several tracked jobs, some of them forgotten by the scheduler, in every order: each id gets its own state"""
    import itertools
    from gwf.backends.base import BackendStatus as B
    env = Env()
    try:
        ops = make_ops(env)
        truth = {"102": "R", "103": "PD", "105": "F"}
        want = {"101": B.UNKNOWN, "102": B.RUNNING, "103": B.SUBMITTED, "104": B.UNKNOWN, "105": B.FAILED}
        for name, (o, _) in ops.items():
            ids_ = ["101", "102", "103", "104"] + ([] if name == "sge" else ["105"])     # qstat lists no failed jobs
            for order in itertools.permutations(ids_):
                env.outputs(_truth_outputs(truth))
                got = o.get_job_states(list(order))
                bad = {j: got.get(j, B.UNKNOWN).name for j in order if got.get(j, B.UNKNOWN) != want[j]}
                if bad:          # (extra entries for other users' jobs are harmless: only tracked ids are looked up)
                    problems.append(f"{name}: tracked jobs {list(order)}, the scheduler knows 102 (running), 103 (pending)"
                                    f"{'' if name == 'sge' else ', 105 (failed)'} and has forgotten 101 and 104: reported "
                                    f"{({j: s.name for j, s in got.items()})}")
                    break
    finally:
        env.close()


def check_submit_history(problems):
    """C07: prerequisites submitted in an earlier invocation: the dependent is held on exactly the ids of its
    incomplete direct dependencies, also when the tracked-jobs file lists jobs the scheduler has forgotten"""
    from gwf.backends.base import TrackingBackend
    from gwf.core import Graph, CachedFilesystem, Target, NoopSpecHashes
    from gwf.scheduling import submit_workflow
    import logging
    logging.getLogger("gwf").setLevel(logging.CRITICAL)
    hold = {"slurm": lambda a: [x for x in a if x.startswith("--dependency=")],
            "sge": lambda a: a[a.index("-hold_jid") + 1:a.index("-hold_jid") + 2] if "-hold_jid" in a else [],
            "lsf": lambda a: a[a.index("-w") + 1:a.index("-w") + 2] if "-w" in a else []}
    want_hold = {"slurm": ["--dependency=afterok:102"], "sge": ["102"], "lsf": ["done(102)"]}
    cmd = {"slurm": "sbatch", "sge": "qsub", "lsf": "bsub"}
    printed = {"slurm": "200\n", "sge": "200\n", "lsf": "Job <200> is submitted to queue <normal>.\n"}
    for tracked_order in (["Old", "Prep"], ["Prep", "Old"], ["Old", "Prep", "Older"]):
        env = Env()
        try:
            ops = make_ops(env)
            for name, (o, defaults) in ops.items():
                ids = {"Old": "101", "Prep": "102", "Older": "100"}
                json.dump({k: ids[k] for k in tracked_order}, open(os.path.join(env.dir, ".gwf", f"{name}-backend-tracked.json"), "w"))
                for f, age in (("old.txt", 300), ("prep.txt", 100)):      # prep.txt exists (partially written)
                    open(os.path.join(env.dir, f), "w").close()
                    os.utime(os.path.join(env.dir, f), (1e9 - age, 1e9 - age))
                opts = {k: v for k, v in defaults.items() if v is not None}
                ts = {"Old": Target(name="Old", inputs=[], outputs=["old.txt"], options=dict(opts), working_dir=env.dir),
                      "Prep": Target(name="Prep", inputs=[], outputs=["prep.txt"], options=dict(opts), working_dir=env.dir),
                      "Final": Target(name="Final", inputs=["prep.txt", "old.txt"], outputs=["final.txt"], options=dict(opts),
                                      working_dir=env.dir)}
                out = _truth_outputs({"102": "R"})
                out[cmd[name]] = printed[name]
                env.outputs(out)
                fs = CachedFilesystem()
                g = Graph.from_targets(ts, fs)
                be = TrackingBackend(env.dir, name=name, ops=o)
                try:
                    submit_workflow([ts["Final"]], g, fs, NoopSpecHashes(), be)
                finally:
                    be.close()
                subs = [c for c in env.calls() if c[0] == cmd[name]]
                if len(subs) != 1:
                    problems.append(f"{name}: tracked {tracked_order} (101/100 finished and forgotten, 102 running): expected one "
                                    f"submission (Final), saw {len(subs)}: {[c[1] for c in subs]}")
                elif hold[name](subs[0][1]) != want_hold[name]:
                    problems.append(f"{name}: tracked {tracked_order} (job 101 of Old finished and forgotten, job 102 of Prep "
                                    f"running): Final was submitted with {subs[0][1]}; it must be held on exactly job 102")
                if problems:
                    return
        finally:
            env.close()


def check_call_failures(problems):
    """C09 (failure kinds of a scheduler command): a submit / cancel command that exits non-zero, or exits 0 with
    'error:' on stderr, is a BackendError; a rejected submission tracks no job"""
    from gwf.backends.base import TrackingBackend
    from gwf.backends.exceptions import BackendError
    kinds = {"non-zero exit": {"exit": 1, "stderr": "failed\n"},
             "error on stderr, exit 0": {"exit": 0, "stderr": "sbatch: error: Batch job submission failed: Invalid account\n"},
             "non-zero exit with output": {"exit": 3, "stdout": "4242\n"}}
    cmd = {"slurm": "sbatch", "sge": "qsub", "lsf": "bsub"}
    kill = {"slurm": "scancel", "sge": "qdel", "lsf": "bkill"}
    for kind, spec in kinds.items():
        env = Env()
        try:
            ops = make_ops(env)
            for name, (o, defaults) in ops.items():
                out = _truth_outputs({})
                out[cmd[name]] = {"__fail__": spec}
                out[kill[name]] = {"__fail__": spec}
                env.outputs(out)
                be = TrackingBackend(env.dir, name=name + "f", ops=o)
                t = target(env, "a", **{k: v for k, v in defaults.items() if v is not None})
                try:
                    be.submit(t, [])
                    problems.append(f"failures: {name}: {cmd[name]} failed ({kind}) but submit() returned normally and tracks "
                                    f"job {be._tracked_jobs.get('a')!r} for the target")
                except BackendError:
                    if "a" in be._tracked_jobs:
                        problems.append(f"failures: {name}: {cmd[name]} failed ({kind}): BackendError, yet the target is tracked "
                                        f"as job {be._tracked_jobs['a']!r}")
                except Exception as e:
                    problems.append(f"failures: {name}: {cmd[name]} failed ({kind}): {type(e).__name__}: {e} instead of BackendError")
                # garbage output with exit status 0 (C09's third failure kind): where the backend expects a particular
                # reply (LSF's "Job <id> is submitted ..."), a reply without an id must not be recorded as an accepted job
                if name == "lsf" and kind == "non-zero exit":
                    out3 = _truth_outputs({})
                    out3[cmd[name]] = "Request aborted by esub. Job not submitted.\n"
                    env.outputs(out3)
                    be3 = TrackingBackend(env.dir, name=name + "g", ops=o)
                    try:
                        be3.submit(t, [])
                        problems.append(f"failures: lsf: bsub printed no job id (garbage output, exit 0) but submit() returned "
                                        f"normally and tracks job {be3._tracked_jobs.get('a')!r} for the target")
                    except Exception:
                        if "a" in be3._tracked_jobs:
                            problems.append(f"failures: lsf: bsub printed no job id: an exception was raised, yet the target is "
                                            f"tracked as job {be3._tracked_jobs['a']!r}")
                # a failing STATUS query must not be mistaken for "the scheduler has forgotten the job"
                stat = {"slurm": "squeue", "sge": "qstat", "lsf": "bjobs"}[name]
                out2 = _truth_outputs({"77": "R"})
                out2[stat] = {"__fail__": spec}
                env.outputs(out2)
                try:
                    got = o.get_job_states(["77"])
                    problems.append(f"failures: {name}: {stat} failed ({kind}) while job 77 is running, but get_job_states() "
                                    f"returned {({k: v.name for k, v in got.items()})} instead of raising BackendError (the "
                                    f"job would be taken for finished and its target submitted again)")
                except BackendError:
                    pass
                except Exception as e:
                    problems.append(f"failures: {name}: {stat} failed ({kind}): {type(e).__name__}: {e} instead of BackendError")
                env.outputs(out)
                try:
                    o.cancel_job("77")
                    problems.append(f"failures: {name}: {kill[name]} failed ({kind}) but cancel_job() returned normally")
                except BackendError:
                    pass
                except Exception as e:
                    problems.append(f"failures: {name}: {kill[name]} failed ({kind}): {type(e).__name__}: {e} instead of BackendError")
                if problems:
                    return
        finally:
            env.close()


def check_scripts(problems):
    """C10: the generated script, run by bash from another directory, executes the spec verbatim in the target's
    working directory and stops at the first failing command; None options are omitted; unknown placeholders never
    reach the scheduler"""
    env = Env()
    try:
        ops = make_ops(env)
        for name, (o, defaults) in ops.items():
            for sub in ("plain", "my dir", "a'b", "semi;colon"):
                wd = os.path.join(env.dir, sub)
                os.makedirs(wd, exist_ok=True)
                # the spec contains a carriage return, a form feed and a Unicode line separator inside a quoted string:
                # verbatim means verbatim
                spec = "pwd > where.txt\nprintf '%s' 'a\rb\x0cc\u2028d' > odd.txt\nfalse\ntouch after_failure.txt\n"
                t = target(env, wd=wd, spec=spec, **{k: v for k, v in defaults.items() if v is not None})
                script = o.compile_script(t)
                other = os.path.join(env.dir, "elsewhere")
                os.makedirs(other, exist_ok=True)
                for f in ("where.txt", "after_failure.txt"):
                    for d in (wd, other):
                        if os.path.exists(os.path.join(d, f)):
                            os.unlink(os.path.join(d, f))
                r = subprocess.run(["bash"], input=script, text=True, cwd=other, capture_output=True)
                where = open(os.path.join(wd, "where.txt")).read().strip() if os.path.exists(os.path.join(wd, "where.txt")) else None
                if where != os.path.realpath(wd) and where != wd:
                    problems.append(f"{name}: working directory {wd!r}: the spec ran in {where or ('the submit directory' if os.path.exists(os.path.join(other, 'where.txt')) else 'nowhere')} "
                                    f"(bash exit {r.returncode}: {r.stderr.strip()[:80]})")
                if os.path.exists(os.path.join(wd, "after_failure.txt")) or os.path.exists(os.path.join(other, "after_failure.txt")) or r.returncode == 0:
                    problems.append(f"{name}: working directory {wd!r}: the script went on after a failing command (exit {r.returncode})")
                if not script.endswith(spec):
                    problems.append(f"{name}: the script does not end with the spec verbatim")
            # resolved None -> omitted; nothing unresolved reaches the scheduler
            for k in defaults:
                opts = {kk: vv for kk, vv in defaults.items() if vv is not None and kk != k}
                t = target(env, **opts)
                try:
                    script = o.compile_script(t)
                except Exception as e:
                    problems.append(f"{name}: option {k} resolved to None: compile_script raised {type(e).__name__}: {e}")
                    continue
                head = [l for l in script.splitlines() if l.startswith("#")]
                if any("None" in l or "{" + k + "}" in l for l in head):
                    problems.append(f"{name}: option {k} resolved to None still produces the directive {[l for l in head if 'None' in l or '{' + k + '}' in l]}")
    finally:
        env.close()


def _log_directives(backend, script):
    """(stdout path, stderr path, truncating?) the scheduler would use for this script; None = not requested"""
    import shlex
    out = err = None
    for line in script.splitlines():
        if backend == "slurm" and line.startswith("#SBATCH "):
            for w in shlex.split(line[len("#SBATCH "):]):
                if w.startswith("--output="):
                    out = w[len("--output="):]
                if w.startswith("--error="):
                    err = w[len("--error="):]
        elif backend == "sge" and line.startswith("#$ "):
            w = shlex.split(line[3:])
            if w[:1] == ["-o"]:
                out = w[1]
            if w[:1] == ["-e"]:
                err = w[1]
        elif backend == "lsf" and line.startswith("#BSUB "):
            w = shlex.split(line[len("#BSUB "):])
            if w[:1] == ["-oo"]:
                out = w[1]
            if w[:1] == ["-eo"]:
                err = w[1]
    return out, err, backend != "sge"       # SGE appends to -o / -e files; sbatch and bsub -oo/-eo truncate


def check_logs(problems):
    """C10: the script sends stdout / stderr to <project>/.gwf/logs/<target>.stdout / .stderr as selected by the log
    mode, `gwf logs` shows the latest run's output; clean_logs removes only logs of targets that are gone.
    The scheduler is emulated: bash runs the script with the streams redirected as the directives say."""
    from replay.cli_harness import Project
    from gwf.backends.slurm import SlurmOps, TARGET_DEFAULTS as SD
    from gwf.backends.sge import SGEOps, TARGET_DEFAULTS as GD
    from gwf.backends.lsf import LSFOps, TARGET_DEFAULTS as LD
    from gwf.core import Target
    spec = "echo OUT-$RUN\necho ERR-$RUN >&2\n"
    p = Project([{"name": "t1", "inputs": [], "outputs": [], "spec": spec}])
    try:
        os.makedirs(p.path(".gwf/logs"), exist_ok=True)
        cases = [("slurm", "full", lambda: SlurmOps(p.dir, "full", True, target_defaults=SD), SD),
                 ("slurm", "merged", lambda: SlurmOps(p.dir, "merged", True, target_defaults=SD), SD),
                 ("slurm", "none", lambda: SlurmOps(p.dir, "none", True, target_defaults=SD), SD),
                 ("sge", "full", lambda: SGEOps(p.dir, target_defaults=GD), GD),
                 ("lsf", "full", lambda: LSFOps(p.dir, target_defaults=LD), LD)]
        for backend, mode, mk, defaults in cases:
            for f in os.listdir(p.path(".gwf/logs")):
                os.unlink(os.path.join(p.path(".gwf/logs"), f))
            want_out, want_err = p.path(".gwf/logs/t1.stdout"), p.path(".gwf/logs/t1.stderr")
            for run in ("1", "2"):
                # the second run is of a target whose own working directory is NOT the project directory (a template with
                # working_dir=...): the log files still belong in the PROJECT's .gwf/logs
                twd = p.dir if run == "1" else p.path("elsewhere")
                os.makedirs(twd, exist_ok=True)
                t = Target(name="t1", inputs=[], outputs=[], options={k: v for k, v in defaults.items() if v is not None},
                           working_dir=twd, spec=spec)
                script = mk().compile_script(t)
                out, err, trunc = _log_directives(backend, script)
                exp = {"full": (want_out, want_err), "merged": (want_out, None), "none": ("/dev/null", None)}[mode]
                if (out, err) != exp:
                    problems.append(f"logs: {backend} (log mode {mode}): the script asks for stdout -> {out}, stderr -> {err}; "
                                    f"the project's log files are {exp}")
                    return
                fo = open(out, "w" if trunc else "a")
                fe = fo if err is None else open(err, "w" if trunc else "a")      # no stderr directive: joined with stdout
                subprocess.run(["bash"], input=script, text=True, stdout=fo, stderr=fe, cwd="/", env=dict(os.environ, RUN=run))
                fo.close()
                if fe is not fo:
                    fe.close()
            code, shown = p.gwf("logs", "--no-pager", "t1")
            code_e, shown_e = p.gwf("logs", "--no-pager", "-e", "t1")
            if mode == "none":
                continue
            if code != 0 or "OUT-2" not in shown:
                problems.append(f"logs: {backend} (log mode {mode}): `gwf logs t1` (exit {code}) shows {shown.strip()[-80:]!r}, "
                                f"the latest run printed OUT-2")
            if mode == "full" and (code_e != 0 or "ERR-2" not in shown_e or "OUT-2" in shown_e):
                problems.append(f"logs: {backend} (log mode {mode}): `gwf logs -e t1` (exit {code_e}) shows "
                                f"{shown_e.strip()[-80:]!r}, the latest run wrote ERR-2 to stderr")
            if mode == "merged" and "ERR-2" not in shown:
                problems.append(f"logs: {backend} (log mode merged): `gwf logs t1` shows {shown.strip()[-80:]!r} without the "
                                f"latest run's stderr")
            if problems:
                return
        # clean_logs: only logs of targets that are no longer part of the workflow
        from gwf.plugins.run import clean_logs

        class G:
            targets = {"t1": None, "keep_me": None, "gone.sample1": None, "t": None}     # names may contain dots

        logs = p.path(".gwf/logs")
        for f in os.listdir(logs):
            os.unlink(os.path.join(logs, f))
        names = ["t1.stdout", "t1.stderr", "keep_me.stdout", "gone.stdout", "gone.stderr", "t1x.stdout", "t.stdout",
                 "gone.sample1.stdout", "gone.sample1.stderr", "gone.sample2.stdout", "t.extra.stderr"]
        for f in names:
            open(os.path.join(logs, f), "w").close()
        open(p.path("gone.stdout"), "w").close()                # same name outside the log directory
        clean_logs(p.dir, G())
        left = sorted(os.listdir(logs))
        # C10 says ONLY: every log of a target that is still part of the workflow must survive (whether every stale
        # log goes is not prescribed: a missing .stdout makes the real code skip the .stderr, for instance)
        must_keep = ["gone.sample1.stderr", "gone.sample1.stdout", "keep_me.stdout", "t.stdout", "t1.stderr", "t1.stdout"]
        lost = [f for f in must_keep if f not in left]
        if lost or not os.path.exists(p.path("gone.stdout")):
            problems.append(f"logs: clean_logs with targets {sorted(G.targets)} and log files {sorted(names)} deleted {lost}, "
                            f"logs of targets that are still part of the workflow (left: {left}); "
                            f"file outside the log directory still there: {os.path.exists(p.path('gone.stdout'))}")
    finally:
        p.close()


def check_directives(problems):
    """C10: every resource directive carries the resolved value; SGE memory is converted to per-core memory (total //
    cores, unit kept, whatever its case); each option appears exactly once"""
    env = Env()
    try:
        ops = make_ops(env)
        sge = ops["sge"][0]
        for mem, cores, want in (("16g", 4, "4g"), ("16G", 4, "4G"), ("8000m", 2, "4000m"), ("512M", 1, "512M"),
                                 ("12GB", 3, "4GB"), ("7g", 2, "3g")):
            t = target(env, cores=cores, memory=mem, walltime="01:00:00")
            head = [l for l in sge.compile_script(t).splitlines() if l.startswith("#$ ")]
            got = [l.split("h_vmem=", 1)[1] for l in head if "h_vmem=" in l]
            if got != [want] or [l for l in head if l.startswith("#$ -pe smp")] != [f"#$ -pe smp {cores}"]:
                problems.append(f"directives: sge memory={mem!r} cores={cores}: per-core memory directive {got}, expected "
                                f"[{want!r}] (one -l h_vmem= line, total // cores with the unit kept); "
                                f"-pe lines {[l for l in head if '-pe' in l]}")
        slurm = ops["slurm"][0]
        t = target(env, cores=8, memory="12g", walltime="02:30:00", queue="short", account="acc1")
        head = [l for l in slurm.compile_script(t).splitlines() if l.startswith("#SBATCH ")]
        for frag in ("-c 8", "--mem=12g", "-t 02:30:00", "-p short", "-A acc1"):
            n = sum(1 for l in head if l == "#SBATCH " + frag)
            if n != 1:
                problems.append(f"directives: slurm options cores=8 memory=12g walltime=02:30:00 queue=short account=acc1: "
                                f"'#SBATCH {frag}' appears {n} times in {head}")
        lsf = ops["lsf"][0]
        t = target(env, cores=3, memory="2GB", queue="long")
        head = [l for l in lsf.compile_script(t).splitlines() if l.startswith("#BSUB ")]
        for frag in ("-M 2GB", "-n 3", "-q long"):
            n = sum(1 for l in head if l == "#BSUB " + frag)
            if n != 1:
                problems.append(f"directives: lsf options cores=3 memory=2GB queue=long: '#BSUB {frag}' appears {n} times in {head}")
    finally:
        env.close()


def check_option_resolution(problems):
    """C10: what reaches the backend is: backend default < the target's own option, for the keys the backend knows;
    an option resolved to None is omitted, an unknown option dropped. Real gwf.scheduling.submit_backend with a
    recording backend; 3 known keys (one with default None) x {absent, None, value} and one unknown key."""
    import itertools
    import logging
    from gwf.core import Target
    from gwf.scheduling import submit_backend
    logging.getLogger("gwf.scheduling").setLevel(logging.CRITICAL)
    defaults = {"cores": 1, "memory": "1g", "queue": None}

    class Rec:
        target_defaults = defaults

        def __init__(self):
            self.got = None

        def submit(self, target, dependencies):
            self.got = dict(target.options)

    class Hashes:
        def update(self, target):
            pass

    ABSENT = object()
    vals = {"cores": [ABSENT, None, 8], "memory": [ABSENT, None, "4g"], "queue": [ABSENT, None, "short"],
            "nosuch": [ABSENT, None, "x"]}
    keys = list(vals)
    for combo in itertools.product(*(vals[k] for k in keys)):
        opts = {k: v for k, v in zip(keys, combo) if v is not ABSENT}
        chain = dict(defaults)
        chain.update(opts)
        want = {k: v for k, v in chain.items() if k in defaults and v is not None}
        t = Target(name="t", inputs=[], outputs=[], options=dict(opts), working_dir="/w")
        be = Rec()
        try:
            submit_backend(t, [], be, Hashes())
        except Exception as e:
            problems.append(f"options: target options {opts} over backend defaults {defaults}: submit_backend raised "
                            f"{type(e).__name__}: {e}")
            return
        if be.got != want:
            problems.append(f"options: target options {opts} over backend defaults {defaults}: the backend received "
                            f"{be.got}, the resolved options are {want}")
            return


def run(which):
    def go(seed, focus):
        problems = []
        for f in which:
            f(problems)
        known = [p for p in problems if p.startswith("lsf: option ") and "resolved to None still produces the directive" in p]
        other = [p for p in problems if p not in known]
        if not other and known:
            # recorded finding F11 (known_findings.json): reported under its own witness class
            return {"failed_on_real_code": True, "input": {"scenario": "LSF option resolved to None"}, "observed": known,
                    "candidates_tried": len(which), "witness_class": "lsf-none-option-placeholder",
                    "call": "gwf.backends.lsf.LSFOps.compile_script(target) with one default option removed"}
        problems = other
        if not problems:
            return {"failed_on_real_code": False, "candidates_tried": len(which),
                    "bound": "fixed scenarios: ids 11/12/13, documented state codes, 4 directory names, each default option set to None"}
        p = " ".join(problems)
        wc = ("option-resolution" if problems[0].startswith("options:") else
              "log-files" if problems[0].startswith("logs:") else
              "resource-directives" if problems[0].startswith("directives:") else
              "command-failure-kinds" if problems[0].startswith("failures:") else
              "sge-id-with-newline" if "sge" in problems[0] and "4242" in problems[0] else
              "cd-unquoted" if "the spec ran in" in p else "ops-other")
        return {"failed_on_real_code": True, "input": {"scenario": problems[0].split(":")[0]}, "observed": problems[:8],
                "candidates_tried": len(which), "witness_class": wc,
                "call": "real Ops classes + utils.call with scripted fake scheduler commands on PATH; bash for scripts"}
    return go

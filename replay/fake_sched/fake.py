#!/venv/bin/python
"""Generic fake scheduler command: prints the output scripted for it in $FAKE_SCHED_SCRIPT (json: {cmd: stdout |
[stdout per call]}) and appends [cmd, argv, stdin] to $FAKE_SCHED_JOURNAL."""
import json
import os
import sys

cmd = os.path.basename(sys.argv[0])
stdin = "" if sys.stdin.isatty() else sys.stdin.read()
jp = os.environ["FAKE_SCHED_JOURNAL"]
try:
    journal = json.load(open(jp))
except FileNotFoundError:
    journal = []
journal.append([cmd, sys.argv[1:], stdin])
json.dump(journal, open(jp, "w"))
script = json.load(open(os.environ["FAKE_SCHED_SCRIPT"]))
out = script.get(cmd, "")
if isinstance(out, list):
    n = sum(1 for c in journal if c[0] == cmd) - 1
    out = out[min(n, len(out) - 1)]
if isinstance(out, dict):
    key = " ".join(sys.argv[1:])
    out = out.get(key, out.get("*", ""))
sys.stdout.write(out)

#!/venv/bin/python
"""Generic fake scheduler command: prints the output scripted for it in $FAKE_SCHED_SCRIPT (json: {cmd: stdout |
[stdout per call]}) and appends [cmd, argv, stdin] to $FAKE_SCHED_JOURNAL."""
import json
import os
import sys

cmd = os.path.basename(sys.argv[0])
stdin = "" if sys.stdin.isatty() else sys.stdin.read()
jp = os.environ["FAKE_SCHED_JOURNAL"]
try:
    journal = json.load(open(jp))
except FileNotFoundError:
    journal = []
journal.append([cmd, sys.argv[1:], stdin])
json.dump(journal, open(jp, "w"))
script = json.load(open(os.environ["FAKE_SCHED_SCRIPT"]))
out = script.get(cmd, "")
if isinstance(out, list):
    n = sum(1 for c in journal if c[0] == cmd) - 1
    out = out[min(n, len(out) - 1)]
if isinstance(out, dict) and "__fail__" in out:
    # a failing command: {"__fail__": {"exit": n, "stderr": text, "stdout": text}}
    f = out["__fail__"]
    sys.stderr.write(f.get("stderr", ""))
    sys.stdout.write(f.get("stdout", ""))
    sys.exit(f.get("exit", 0))
if isinstance(out, dict) and "__jobs__" in out:
    # a job table: one line per id on the command line that the scheduler still knows, in command-line order;
    # unknown ids only produce a message on stderr (as bjobs does)
    lines = []
    for a in sys.argv[1:]:
        if a.isdigit():
            if a in out["__jobs__"]:
                lines.append(out["__jobs__"][a])
            else:
                sys.stderr.write(f"Job <{a}> is not found\n")
    out = "".join(l + "\n" for l in lines)
elif isinstance(out, dict):
    key = " ".join(sys.argv[1:])
    out = out.get(key, out.get("*", ""))
sys.stdout.write(out)

"""Bounded refuter / CPython cross-check for the local worker pool (replay only): the real Scheduler with
real shell processes under asyncio. Bound: the fixed scenarios below (<= 5 tasks each, max_cores 1 or 2)."""
import asyncio
import os
import pathlib
import shutil
import tempfile
import time


async def settle(s, tids, timeout=8.0):
    tasks = {s.tasks[t] for t in tids if t in s.tasks}
    if tasks:
        await asyncio.wait(tasks, timeout=timeout)


def final(st):
    from gwf.backends.local import LocalStatus as L
    return st in (L.FAILED, L.COMPLETED, L.CANCELLED, L.KILLED)


async def watch(s, stop, peak):
    from gwf.backends.local import LocalStatus as L
    while not stop.is_set():
        running = [k for k, v in s.task_states.items() if v == L.RUNNING]
        peak[0] = max(peak[0], len(running))
        await asyncio.sleep(0.01)


async def scenario(name, max_cores, build, problems):
    from gwf.backends.local import Scheduler, LocalStatus as L
    d = pathlib.Path(tempfile.mkdtemp(prefix="gwfverif-"))
    try:
        (d / ".gwf" / "logs").mkdir(parents=True)
        s = Scheduler(working_dir=d, max_cores=max_cores)
        stop, peak = asyncio.Event(), [0]
        w = asyncio.create_task(watch(s, stop, peak))
        expect = await build(s, d)
        await settle(s, list(s.tasks))
        await asyncio.sleep(0.05)
        stop.set()
        await w
        for tid, st in s.task_states.items():
            if not final(st):
                exc = s.tasks[tid].exception() if s.tasks[tid].done() and not s.tasks[tid].cancelled() else None
                problems.append(f"{name}: task {tid} is left in state {st.name} (coroutine ended with {exc!r})")
        for tid, want in expect.items():
            got = s.task_states.get(tid)
            if got is not None and final(got) and got not in (want if isinstance(want, tuple) else (want,)):
                problems.append(f"{name}: task {tid} ended {got.name}, expected {want}")
        # C12/C13: a task in a final state has no live process (scripts that record their pid in <name>.pid)
        await asyncio.sleep(0.3)
        for pf in d.glob("*.pid"):
            try:
                pid = int(pf.read_text().strip())
            except ValueError:
                continue
            alive = os.path.exists(f"/proc/{pid}") and "Z" not in open(f"/proc/{pid}/stat").read().split(")")[-1].split()[0]
            if alive:
                problems.append(f"{name}: every task is in a final state but the process {pid} of task {pf.stem} is still alive")
                try:
                    os.kill(pid, 9)
                except OSError:
                    pass
        if s.cores_ressource._value != max_cores:
            problems.append(f"{name}: at quiescence the core semaphore holds {s.cores_ressource._value} units, "
                            f"the pool has {max_cores} cores")
        if peak[0] > max_cores:
            problems.append(f"{name}: {peak[0]} tasks were RUNNING at once with {max_cores} cores")
        for t in s.tasks.values():
            if not t.done():
                t.cancel()
    finally:
        shutil.rmtree(d, ignore_errors=True)


async def run_all(problems):
    from gwf.backends.local import LocalStatus as L

    async def ok(s, d):
        a = await s.enqueue_task("a", "echo out; echo err >&2", str(d), None, [])
        b = await s.enqueue_task("b", "test -f a.marker || exit 3; exit 0", str(d), None, [a])
        return {a: L.COMPLETED, b: (L.FAILED,)}

    async def order(s, d):
        a = await s.enqueue_task("a", "sleep 0.2; touch a.marker", str(d), None, [])
        b = await s.enqueue_task("b", "test -f a.marker", str(d), None, [a])
        return {a: L.COMPLETED, b: L.COMPLETED}

    async def fail_then_more(s, d):
        a = await s.enqueue_task("a", "exit 1", str(d), None, [])
        b = await s.enqueue_task("b", "exit 0", str(d), None, [a])
        await settle(s, [a, b])
        c = await s.enqueue_task("c", "sleep 0.3", str(d), None, [])
        e = await s.enqueue_task("e", "sleep 0.3", str(d), None, [])
        return {a: L.FAILED, b: L.FAILED, c: L.COMPLETED, e: L.COMPLETED}

    async def missing_dir(s, d):
        a = await s.enqueue_task("a", "exit 0", str(d / "nonexistent"), None, [])
        b = await s.enqueue_task("b", "exit 0", str(d), None, [a])
        return {a: L.FAILED, b: L.FAILED}

    async def unknown_dep(s, d):
        a = await s.enqueue_task("a", "exit 0", str(d), None, [999])
        return {a: (L.FAILED, L.CANCELLED)}

    async def cancel_waiting(s, d):
        a = await s.enqueue_task("a", "sleep 0.4", str(d), None, [])
        b = await s.enqueue_task("b", "exit 0", str(d), None, [a])
        await asyncio.sleep(0.1)
        await s.cancel_task(b)
        await settle(s, [a, b])
        c = await s.enqueue_task("c", "sleep 0.2", str(d), None, [])
        e = await s.enqueue_task("e", "sleep 0.2", str(d), None, [])
        return {a: L.COMPLETED, b: L.CANCELLED, c: L.COMPLETED, e: L.COMPLETED}

    async def cancel_running_and_finished(s, d):
        a = await s.enqueue_task("a", "sleep 5", str(d), None, [])
        b = await s.enqueue_task("b", "exit 0", str(d), None, [a])
        f = await s.enqueue_task("f", "exit 0", str(d), None, [])
        await asyncio.sleep(0.3)
        await s.cancel_task(a)
        await settle(s, [f])
        await s.cancel_task(f)        # cancelling a finished task changes nothing
        return {a: L.CANCELLED, b: L.CANCELLED, f: L.COMPLETED}

    async def timeout(s, d):
        a = await s.enqueue_task("a", "sleep 5", str(d), 0.2, [])
        b = await s.enqueue_task("b", "exit 0", str(d), None, [a])
        return {a: L.KILLED, b: (L.KILLED, L.FAILED)}

    async def two_deps(s, d):
        a = await s.enqueue_task("a", "sleep 0.5; touch a.marker", str(d), None, [])
        b = await s.enqueue_task("b", "touch b.marker", str(d), None, [])
        c = await s.enqueue_task("c", "test -f a.marker && test -f b.marker", str(d), None, [a, b])
        return {a: L.COMPLETED, b: L.COMPLETED, c: L.COMPLETED}

    async def timeout_kills(s, d):
        a = await s.enqueue_task("a", "sleep 1; touch late.marker", str(d), 0.2, [])
        await settle(s, [a])
        await asyncio.sleep(1.3)
        if (d / "late.marker").exists():
            problems.append("time limit: the process of the timed-out task kept running and wrote a file afterwards")
        return {a: L.KILLED}

    async def cancel_kills(s, d):
        a = await s.enqueue_task("a", "sleep 1; touch late.marker", str(d), None, [])
        await asyncio.sleep(0.2)
        await s.cancel_task(a)
        await settle(s, [a])
        await asyncio.sleep(1.3)
        if (d / "late.marker").exists():
            problems.append("cancel: the process of the cancelled task kept running and wrote a file afterwards")
        return {a: L.CANCELLED}

    async def cancel_during_timeout_kill(s, d):
        # the task ignores SIGTERM, runs into its time limit, and is cancelled while the pool is killing it;
        # a second task is waiting for the only core
        a = await s.enqueue_task("a", "trap '' TERM; echo $$ > a.pid; exec sleep 6", str(d), 0.5, [])
        b = await s.enqueue_task("b", "echo $$ > b.pid; exec sleep 0.5", str(d), None, [])
        await asyncio.sleep(0.9)
        await s.cancel_task(a)
        return {a: (L.CANCELLED, L.KILLED), b: L.COMPLETED}

    async def no_logs_dir(s, d):
        shutil.rmtree(d / ".gwf" / "logs")
        a = await s.enqueue_task("a", "exit 0", str(d), None, [])
        return {a: L.FAILED}

    for name, cores, fn in (("success+log", 2, ok), ("dependency order", 2, order),
                            ("failed dependency then two tasks on one core", 1, fail_then_more),
                            ("missing working directory", 1, missing_dir), ("unknown dependency id", 1, unknown_dep),
                            ("cancel while waiting for a dependency, then two tasks on one core", 1, cancel_waiting),
                            ("cancel running / finished", 2, cancel_running_and_finished),
                            ("time limit", 1, timeout), ("log directory missing", 1, no_logs_dir),
                            ("two dependencies, one slow", 2, two_deps), ("time limit kills the process", 1, timeout_kills),
                            ("cancel kills the process", 1, cancel_kills),
                            ("cancel while the time-out handler kills a TERM-ignoring task", 1, cancel_during_timeout_kill)):
        try:
            await asyncio.wait_for(scenario(name, cores, fn, problems), timeout=40)
        except asyncio.TimeoutError:
            problems.append(f"{name}: the pool did not settle within 40 s")
        if problems:
            return


def replay(eng, ob, model, seed):
    import logging
    problems = []
    t0 = time.time()
    logging.disable(logging.CRITICAL)
    try:
        asyncio.run(run_all(problems))
    finally:
        logging.disable(logging.NOTSET)
    if not problems:
        return {"failed_on_real_code": False, "candidates_tried": 13, "bound": "13 fixed scenarios, <= 5 tasks, 1-2 cores"}
    p = " ".join(problems)
    wc = "core-semaphore-over-released" if "semaphore holds" in p or "RUNNING at once" in p else (
        "task-left-in-non-final-state" if "is left in state" in p else "local-other")
    return {"failed_on_real_code": True, "input": {"scenario": problems[0].split(":")[0]}, "observed": problems,
            "candidates_tried": 9, "witness_class": wc,
            "call": "gwf.backends.local.Scheduler(...) with real shell processes under asyncio"}


async def server_case(problems):
    """C14: misbehaving clients next to a healthy one, over real sockets"""
    import json
    from gwf.backends.local import Scheduler, Server, LocalStatus as L
    d = pathlib.Path(tempfile.mkdtemp(prefix="gwfverif-"))
    try:
        (d / ".gwf" / "logs").mkdir(parents=True)
        s = Scheduler(working_dir=d, max_cores=2)
        srv = Server(s)
        srv.server = await asyncio.start_server(srv.handle_connection, "127.0.0.1", 0)
        port = srv.server.sockets[0].getsockname()[1]

        async def talk(lines, read=0, close=True):
            r, w = await asyncio.open_connection("127.0.0.1", port)
            out = []
            for l in lines:
                w.write(l)
                await w.drain()
            for _ in range(read):
                out.append(json.loads(await asyncio.wait_for(r.readline(), 3)))
            if close:
                w.close()
            return out

        def enq(name, script, deps=()):
            return (json.dumps({"__kind__": "enqueue_task", "name": name, "script": script, "time_limit": None,
                                "working_dir": str(d), "deps": list(deps)}) + "\n").encode()

        good = await talk([enq("a", "sleep 0.3")], read=1)
        ta = good[0]["tid"]
        for bad in ([b"not json\n"], [b"[1, 2]\n"], [b'{"__kind__": "cancel_task", "tid": 999}\n'],
                    [b'{"__kind__": "enqueue_task"}\n'], [b'{"__kind__": "nosuch", "x": 1}\n'], [b'{"no_kind": 1}\n'], []):
            await talk(bad)
            await asyncio.sleep(0.02)
        if not srv.server.is_serving():
            problems.append("server: stopped serving after malformed / incomplete / unknown requests")
            return
        await talk([(json.dumps({"__kind__": "cancel_task", "tid": ta}) + "\n").encode()])
        await asyncio.sleep(0.05)
        if not srv.server.is_serving():
            problems.append("server: stopped serving after a cancel_task request")
            return
        more = await talk([enq("b", "exit 0", [ta]), enq("c", "exit 0")], read=2)
        ids = [ta] + [m["tid"] for m in more]
        if len(set(ids)) != len(ids):
            problems.append(f"server: task ids are not unique: {ids}")
        await settle(s, ids)
        st = await talk([b'{"__kind__": "get_task_states"}\n'], read=1)
        got = {int(k): v for k, v in st[0]["tasks"].items()}
        want = {k: v.name for k, v in s.task_states.items()}
        if got != want:
            problems.append(f"server: state query returned {got}, the pool's table is {want}")
        for t in ids:
            if not final(s.task_states[t]):
                problems.append(f"server: accepted task {t} did not reach a final state next to misbehaving clients")
        srv.server.close()
        await srv.server.wait_closed()
    finally:
        shutil.rmtree(d, ignore_errors=True)


def replay_server(eng, ob, model, seed):
    import logging
    problems = []
    logging.disable(logging.CRITICAL)
    try:
        loop = asyncio.new_event_loop()
        loop.set_exception_handler(lambda l, c: None)      # handler exceptions of bad clients are expected
        loop.run_until_complete(asyncio.wait_for(server_case(problems), 30))
        loop.close()
    except Exception as e:
        problems.append(f"server scenario raised {type(e).__name__}: {e}")
    finally:
        logging.disable(logging.NOTSET)
    if not problems:
        return {"failed_on_real_code": False, "candidates_tried": 1, "bound": "7 misbehaving clients, 3 tasks"}
    return {"failed_on_real_code": True, "input": {"scenario": "misbehaving clients"}, "observed": problems,
            "candidates_tried": 1, "witness_class": "server", "call": "real Server over 127.0.0.1 sockets"}

"""Bounded refuter / CPython cross-check for the local worker pool (replay only): the real Scheduler with
real shell processes under asyncio. Bound: the fixed scenarios below (<= 5 tasks each, max_cores 1 or 2)."""
import asyncio
import os
import pathlib
import shutil
import tempfile
import time


async def settle(s, tids, timeout=8.0):
    tasks = {s.tasks[t] for t in tids if t in s.tasks}
    if tasks:
        await asyncio.wait(tasks, timeout=timeout)


def final(st):
    from gwf.backends.local import LocalStatus as L
    return st in (L.FAILED, L.COMPLETED, L.CANCELLED, L.KILLED)


async def watch(s, stop, peak):
    from gwf.backends.local import LocalStatus as L
    while not stop.is_set():
        running = [k for k, v in s.task_states.items() if v == L.RUNNING]
        peak[0] = max(peak[0], len(running))
        await asyncio.sleep(0.01)


async def scenario(name, max_cores, build, problems, sched_kw=None):
    from gwf.backends.local import Scheduler, LocalStatus as L
    d = pathlib.Path(tempfile.mkdtemp(prefix="gwfverif-"))
    try:
        (d / ".gwf" / "logs").mkdir(parents=True)
        s = Scheduler(working_dir=d, max_cores=max_cores, **(sched_kw or {}))
        stop, peak = asyncio.Event(), [0]
        w = asyncio.create_task(watch(s, stop, peak))
        expect = await build(s, d)
        await settle(s, list(s.tasks))
        await asyncio.sleep(0.05)
        stop.set()
        await w
        for tid, st in s.task_states.items():
            if not final(st):
                exc = s.tasks[tid].exception() if s.tasks[tid].done() and not s.tasks[tid].cancelled() else None
                problems.append(f"{name}: task {tid} is left in state {st.name} (coroutine ended with {exc!r})")
        for tid, want in expect.items():
            got = s.task_states.get(tid)
            if got is not None and final(got) and got not in (want if isinstance(want, tuple) else (want,)):
                problems.append(f"{name}: task {tid} ended {got.name}, expected {want}")
        # C12/C13: a task in a final state has no live process (scripts that record their pid in <name>.pid)
        await asyncio.sleep(0.3)
        for pf in d.glob("*.pid"):
            try:
                pid = int(pf.read_text().strip())
            except ValueError:
                continue
            alive = os.path.exists(f"/proc/{pid}") and "Z" not in open(f"/proc/{pid}/stat").read().split(")")[-1].split()[0]
            if alive:
                problems.append(f"{name}: every task is in a final state but the process {pid} of task {pf.stem} is still alive")
                try:
                    os.kill(pid, 9)
                except OSError:
                    pass
        if s.cores_ressource._value != max_cores:
            problems.append(f"{name}: at quiescence the core semaphore holds {s.cores_ressource._value} units, "
                            f"the pool has {max_cores} cores")
        if peak[0] > max_cores:
            problems.append(f"{name}: {peak[0]} tasks were RUNNING at once with {max_cores} cores")
        for t in s.tasks.values():
            if not t.done():
                t.cancel()
    finally:
        shutil.rmtree(d, ignore_errors=True)


async def run_all(problems):
    from gwf.backends.local import LocalStatus as L

    async def ok(s, d):
        a = await s.enqueue_task("a", "echo out; echo err >&2", str(d), None, [])
        b = await s.enqueue_task("b", "test -f a.marker || exit 3; exit 0", str(d), None, [a])
        return {a: L.COMPLETED, b: (L.FAILED,)}

    async def order(s, d):
        a = await s.enqueue_task("a", "sleep 0.2; touch a.marker", str(d), None, [])
        b = await s.enqueue_task("b", "test -f a.marker", str(d), None, [a])
        return {a: L.COMPLETED, b: L.COMPLETED}

    async def fail_then_more(s, d):
        a = await s.enqueue_task("a", "exit 1", str(d), None, [])
        b = await s.enqueue_task("b", "exit 0", str(d), None, [a])
        await settle(s, [a, b])
        c = await s.enqueue_task("c", "sleep 0.3", str(d), None, [])
        e = await s.enqueue_task("e", "sleep 0.3", str(d), None, [])
        return {a: L.FAILED, b: L.FAILED, c: L.COMPLETED, e: L.COMPLETED}

    async def missing_dir(s, d):
        a = await s.enqueue_task("a", "exit 0", str(d / "nonexistent"), None, [])
        b = await s.enqueue_task("b", "exit 0", str(d), None, [a])
        return {a: L.FAILED, b: L.FAILED}

    async def unknown_dep(s, d):
        a = await s.enqueue_task("a", "exit 0", str(d), None, [999])
        return {a: (L.FAILED, L.CANCELLED)}

    async def cancel_waiting(s, d):
        a = await s.enqueue_task("a", "sleep 0.4", str(d), None, [])
        b = await s.enqueue_task("b", "exit 0", str(d), None, [a])
        await asyncio.sleep(0.1)
        await s.cancel_task(b)
        await settle(s, [a, b])
        c = await s.enqueue_task("c", "sleep 0.2", str(d), None, [])
        e = await s.enqueue_task("e", "sleep 0.2", str(d), None, [])
        return {a: L.COMPLETED, b: L.CANCELLED, c: L.COMPLETED, e: L.COMPLETED}

    async def cancel_running_and_finished(s, d):
        a = await s.enqueue_task("a", "sleep 5", str(d), None, [])
        b = await s.enqueue_task("b", "exit 0", str(d), None, [a])
        f = await s.enqueue_task("f", "exit 0", str(d), None, [])
        await asyncio.sleep(0.3)
        await s.cancel_task(a)
        await settle(s, [f])
        await s.cancel_task(f)        # cancelling a finished task changes nothing
        return {a: L.CANCELLED, b: L.CANCELLED, f: L.COMPLETED}

    async def timeout(s, d):
        a = await s.enqueue_task("a", "sleep 5", str(d), 0.2, [])
        b = await s.enqueue_task("b", "exit 0", str(d), None, [a])
        return {a: L.KILLED, b: (L.KILLED, L.FAILED)}

    async def two_deps(s, d):
        a = await s.enqueue_task("a", "sleep 0.5; touch a.marker", str(d), None, [])
        b = await s.enqueue_task("b", "touch b.marker", str(d), None, [])
        c = await s.enqueue_task("c", "test -f a.marker && test -f b.marker", str(d), None, [a, b])
        return {a: L.COMPLETED, b: L.COMPLETED, c: L.COMPLETED}

    async def timeout_kills(s, d):
        a = await s.enqueue_task("a", "sleep 1; touch late.marker", str(d), 0.2, [])
        await settle(s, [a])
        await asyncio.sleep(1.3)
        if (d / "late.marker").exists():
            problems.append("time limit: the process of the timed-out task kept running and wrote a file afterwards")
        return {a: L.KILLED}

    async def cancel_kills(s, d):
        a = await s.enqueue_task("a", "sleep 1; touch late.marker", str(d), None, [])
        await asyncio.sleep(0.2)
        await s.cancel_task(a)
        await settle(s, [a])
        await asyncio.sleep(1.3)
        if (d / "late.marker").exists():
            problems.append("cancel: the process of the cancelled task kept running and wrote a file afterwards")
        return {a: L.CANCELLED}

    async def cancel_during_timeout_kill(s, d):
        # the task ignores SIGTERM, runs into its time limit, and is cancelled while the pool is killing it;
        # a second task is waiting for the only core
        a = await s.enqueue_task("a", "trap '' TERM; echo $$ > a.pid; exec sleep 6", str(d), 0.5, [])
        b = await s.enqueue_task("b", "echo $$ > b.pid; exec sleep 0.5", str(d), None, [])
        await asyncio.sleep(0.9)
        await s.cancel_task(a)
        return {a: (L.CANCELLED, L.KILLED), b: L.COMPLETED}

    async def no_logs_dir(s, d):
        shutil.rmtree(d / ".gwf" / "logs")
        a = await s.enqueue_task("a", "exit 0", str(d), None, [])
        return {a: L.FAILED}

    async def late_dependents(s, d):
        # dependents submitted AFTER their dependency has ended without success must never start (C11, C07)
        a = await s.enqueue_task("a", "exit 1", str(d), None, [])
        k = await s.enqueue_task("k", "sleep 5", str(d), 0.2, [])
        x = await s.enqueue_task("x", "sleep 5", str(d), None, [])
        await asyncio.sleep(0.1)
        await s.cancel_task(x)
        await settle(s, [a, k, x])
        sib = await s.enqueue_task("sib", "sleep 0.3", str(d), None, [])
        la = await s.enqueue_task("la", "touch la.ran", str(d), None, [a])
        lk = await s.enqueue_task("lk", "touch lk.ran", str(d), None, [k])
        lx = await s.enqueue_task("lx", "touch lx.ran", str(d), None, [x])
        ls = await s.enqueue_task("ls", "touch ls.ran", str(d), None, [sib, a])
        await settle(s, [sib, la, lk, lx, ls])
        ran = sorted(p_.name for p_ in d.glob("*.ran"))
        if ran:
            problems.append(f"late dependents: {ran} were started although a dependency had already ended FAILED / KILLED / "
                            f"CANCELLED when they were submitted")
        return {a: L.FAILED, k: L.KILLED, x: L.CANCELLED, sib: L.COMPLETED, la: L.FAILED, lk: (L.KILLED, L.FAILED),
                lx: (L.CANCELLED, L.FAILED), ls: L.FAILED}

    async def big_output(s, d):
        # a verbose task (1 MB on each stream, far more than a pipe buffer) finishes, its dependent runs, logs are complete
        script = "head -c 1000000 /dev/zero | tr '\\0' 'o'; head -c 1000000 /dev/zero | tr '\\0' 'e' >&2"
        a = await s.enqueue_task("big", script, str(d), None, [])
        l = await s.enqueue_task("biglimited", script, str(d), 20, [])
        b = await s.enqueue_task("after", "exit 0", str(d), None, [a])
        await settle(s, [a, l, b], timeout=15.0)
        for nm in ("big", "biglimited"):
            for ext, ch in ((".stdout", b"o"), (".stderr", b"e")):
                f = d / ".gwf" / "logs" / (nm + ext)
                data = f.read_bytes() if f.exists() else None
                if data != ch * 1000000:
                    problems.append(f"big output: the log {nm}{ext} holds {None if data is None else len(data)} bytes, the "
                                    f"task wrote 1000000")
        return {a: L.COMPLETED, l: L.COMPLETED, b: L.COMPLETED}

    async def ids_from_zero(s, d):
        # a pool whose ids count from 0 (Scheduler(tid_generator=itertools.count())): id 0 is an id like any other
        a = await s.enqueue_task("a", "exit 1", str(d), None, [])
        b = await s.enqueue_task("b", "touch b.ran", str(d), None, [a])
        c = await s.enqueue_task("c", "sleep 0.2; touch c.marker", str(d), None, [])
        e = await s.enqueue_task("e", "test -f c.marker", str(d), None, [c])
        await settle(s, [a, b, c, e])
        if a != 0:
            problems.append(f"ids from zero: the first id handed out is {a}")
        if (d / "b.ran").exists():
            problems.append("ids from zero: the dependent of the failed task 0 was started")
        return {a: L.FAILED, b: L.FAILED, c: L.COMPLETED, e: L.COMPLETED}

    async def signalled(s, d):
        # a task whose shell dies from a signal did not succeed (asyncio reports -N): FAILED, dependents do not run
        a = await s.enqueue_task("a", "kill -SEGV $$", str(d), None, [])
        b = await s.enqueue_task("b", "touch b.ran", str(d), None, [a])
        await settle(s, [a, b])
        if (d / "b.ran").exists():
            problems.append("signal: the dependent of a task killed by SIGSEGV was started")
        return {a: L.FAILED, b: L.FAILED}

    import itertools
    try:
        await asyncio.wait_for(scenario("ids counting from 0", 2, ids_from_zero, problems,
                                        sched_kw={"tid_generator": itertools.count()}), timeout=40)
    except asyncio.TimeoutError:
        problems.append("ids counting from 0: the pool did not settle within 40 s")
    if problems:
        return
    for name, cores, fn in (("success+log", 2, ok), ("dependency order", 2, order),
                            ("dependents submitted after the dependency ended badly", 2, late_dependents),
                            ("task killed by a signal", 1, signalled),
                            ("task with 1 MB of output on each stream", 2, big_output),
                            ("failed dependency then two tasks on one core", 1, fail_then_more),
                            ("missing working directory", 1, missing_dir), ("unknown dependency id", 1, unknown_dep),
                            ("cancel while waiting for a dependency, then two tasks on one core", 1, cancel_waiting),
                            ("cancel running / finished", 2, cancel_running_and_finished),
                            ("time limit", 1, timeout), ("log directory missing", 1, no_logs_dir),
                            ("two dependencies, one slow", 2, two_deps), ("time limit kills the process", 1, timeout_kills),
                            ("cancel kills the process", 1, cancel_kills),
                            ("cancel while the time-out handler kills a TERM-ignoring task", 1, cancel_during_timeout_kill)):
        try:
            await asyncio.wait_for(scenario(name, cores, fn, problems), timeout=40)
        except asyncio.TimeoutError:
            problems.append(f"{name}: the pool did not settle within 40 s")
        if problems:
            return


def replay(eng, ob, model, seed):
    import logging
    problems = []
    t0 = time.time()
    logging.disable(logging.CRITICAL)
    try:
        asyncio.run(run_all(problems))
    finally:
        logging.disable(logging.NOTSET)
    if not problems:
        return {"failed_on_real_code": False, "candidates_tried": 17, "bound": "17 fixed scenarios, <= 9 tasks, 1-2 cores"}
    p = " ".join(problems)
    wc = "core-semaphore-over-released" if "semaphore holds" in p or "RUNNING at once" in p else (
        "task-left-in-non-final-state" if "is left in state" in p else "local-other")
    return {"failed_on_real_code": True, "input": {"scenario": problems[0].split(":")[0]}, "observed": problems,
            "candidates_tried": 9, "witness_class": wc,
            "call": "gwf.backends.local.Scheduler(...) with real shell processes under asyncio"}


def server_case(problems):
    """C14: misbehaving clients next to a healthy one, over real sockets. The pool (real Scheduler + Server) runs in its
    own thread and event loop; the clients are plain blocking sockets with time-outs, so a pool that stops answering
    (for instance because a handler spins on a dead connection) is observed as a time-out instead of hanging the check."""
    import json
    import socket
    import threading
    from gwf.backends.local import Scheduler, Server
    d = pathlib.Path(tempfile.mkdtemp(prefix="gwfverif-"))
    (d / ".gwf" / "logs").mkdir(parents=True)
    ready, box = threading.Event(), {}

    def pool():
        loop = asyncio.new_event_loop()
        asyncio.set_event_loop(loop)
        loop.set_exception_handler(lambda l, c: None)      # handler exceptions of bad clients are expected

        async def start():
            s = Scheduler(working_dir=d, max_cores=2)
            srv = Server(s)
            srv.server = await asyncio.start_server(srv.handle_connection, "127.0.0.1", 0)
            box["port"] = srv.server.sockets[0].getsockname()[1]
            box["srv"] = srv
            ready.set()

        loop.run_until_complete(start())
        loop.run_forever()

    threading.Thread(target=pool, daemon=True).start()
    if not ready.wait(10):
        problems.append("server: the pool did not start")
        return
    port = box["port"]

    class Dead(Exception):
        pass

    def talk(lines, read=0, close=True):
        try:
            sock = socket.create_connection(("127.0.0.1", port), timeout=15)
        except OSError as e:
            raise Dead(f"connection refused / timed out ({e})")
        sock.settimeout(15)
        f = sock.makefile("rwb")
        out = []
        try:
            for l in lines:
                f.write(l)
                f.flush()
            for _ in range(read):
                line = f.readline()
                if not line:
                    raise Dead("the pool closed the connection without answering")
                out.append(json.loads(line))
        except socket.timeout:
            raise Dead("no answer within 15 s")
        finally:
            if close:
                try:
                    sock.close()
                except OSError:
                    pass
        return out

    def enq(name, script, deps=()):
        return (json.dumps({"__kind__": "enqueue_task", "name": name, "script": script, "time_limit": None,
                            "working_dir": str(d), "deps": list(deps)}) + "\n").encode()

    def msg(kind, **kw):
        return (json.dumps(dict({"__kind__": kind}, **kw)) + "\n").encode()

    try:
        good = talk([enq("a", "sleep 5")], read=1)
        ta = good[0]["tid"]
        bads = [[b"not json\n"], [b"[1, 2]\n"], [msg("cancel_task", tid=999)], [b'{"__kind__": "enqueue_task"}\n'],
                [b'{"__kind__": "nosuch", "x": 1}\n'], [b'{"no_kind": 1}\n'], [], [b'{"__kind__": "get_task_state"}\n'],
                [msg("cancel_task", tid="7")], [msg("cancel_task", tid=None)], [b'{"__kind__": "enqueue_task", "name": "half'],
                # ids close to the ones handed out so far, never handed out themselves
                [msg("cancel_task", tid=ta + 2)], [msg("cancel_task", tid=ta + 4)], [msg("get_task_state", tid=ta + 3)]]
        for bad in bads:
            talk(bad)                       # ... and the connection is dropped without a `close` request
            time.sleep(0.02)
        talk([msg("cancel_task", tid=ta)])
        time.sleep(0.05)
        accepted = {ta: ("a", "CANCELLED")}
        order = [ta]
        # accepted tasks that cannot be spawned (their working directory does not exist): each ends FAILED and has to
        # give its core back, or the pool (2 cores) stops running the tasks accepted after them (S118)
        for name in ("nowd1", "nowd2", "nowd3"):
            r = talk([(json.dumps({"__kind__": "enqueue_task", "name": name, "script": "exit 0", "time_limit": None,
                                   "working_dir": str(d / "no-such-dir"), "deps": []}) + "\n").encode()], read=1)
            accepted[r[0]["tid"]] = (name, "FAILED")
            order.append(r[0]["tid"])
        more = [("b", "exit 0", [ta], "CANCELLED"), ("c", "exit 0", [], "COMPLETED"), ("d", "exit 3", [], "FAILED"),
                ("e", "exit 0", [], "COMPLETED"), ("f", "exit 1", [], "FAILED"), ("g", "exit 0", [], "COMPLETED")]
        for name, script, deps, final_state in more:
            r = talk([enq(name, script, deps)], read=1)
            tid = r[0]["tid"]
            if tid in accepted:
                problems.append(f"server: task {name!r} was given id {tid}, already the id of task {accepted[tid][0]!r} "
                                f"(after cancels of ids never handed out)")
                return
            accepted[tid] = (name, final_state)
            order.append(tid)
            talk([msg("cancel_task", tid=tid + 2)])      # a misbehaving client between two accepted tasks
        want = {k: v[1] for k, v in accepted.items()}
        deadline, got = time.time() + 40, None
        while time.time() < deadline:
            st = talk([msg("get_task_states")], read=1)
            got = {(int(k) if k.lstrip("-").isdigit() else k): v for k, v in st[0]["tasks"].items()}
            if all(got.get(t) in ("COMPLETED", "FAILED", "CANCELLED", "KILLED") for t in order):
                break
            time.sleep(0.1)
        if got != want:
            problems.append(f"server: state query returned {got}; the accepted tasks and their true final states are {want}")
        for t in order:
            one = talk([msg("get_task_state", tid=t)], read=1)
            if one[0].get("state") != want[t]:
                problems.append(f"server: get_task_state({t}) answered {one[0]}, task {accepted[t][0]!r} ended {want[t]}")
    except Dead as e:
        problems.append(f"server: after misbehaving clients (malformed / incomplete requests, connections dropped without "
                        f"`close`) the pool no longer serves a well-behaved client: {e}")
    finally:
        shutil.rmtree(d, ignore_errors=True)


def replay_server(eng, ob, model, seed):
    import logging
    problems = []
    logging.disable(logging.CRITICAL)
    try:
        server_case(problems)
    except Exception as e:
        problems.append(f"server scenario raised {type(e).__name__}: {e}")
    finally:
        logging.disable(logging.NOTSET)
    if not problems:
        return {"failed_on_real_code": False, "candidates_tried": 1, "bound": "21 misbehaving connections (malformed, incomplete, unknown kinds, unknown ids near the live ones), 10 tasks of which 3 cannot be spawned"}
    return {"failed_on_real_code": True, "input": {"scenario": "misbehaving clients"}, "observed": problems,
            "candidates_tried": 1, "witness_class": "server", "call": "real Server over 127.0.0.1 sockets"}


async def restart_case(problems):
    """C08 for the local backend: the state reported for a target is the state of ITS latest job, also after the
    worker pool was restarted. Real Scheduler + Server on an ephemeral port, real LocalOps / TrackingBackend clients
    (blocking sockets, run in a thread), three gwf invocations."""
    from gwf.backends.local import Scheduler, Server, LocalOps
    from gwf.backends.base import TrackingBackend, BackendStatus
    from gwf.core import Target
    d = pathlib.Path(tempfile.mkdtemp(prefix="gwfverif-"))
    loop = asyncio.get_running_loop()
    try:
        (d / ".gwf" / "logs").mkdir(parents=True)

        async def pool():
            s = Scheduler(working_dir=d, max_cores=2)
            srv = Server(s)
            srv.server = await asyncio.start_server(srv.handle_connection, "127.0.0.1", 0)
            return s, srv, srv.server.sockets[0].getsockname()[1]

        def invocation(port, submit=(), ask=()):
            """one gwf process: open the backend, submit, read states, close"""
            be = TrackingBackend(str(d), name="local", ops=LocalOps(str(d), "127.0.0.1", port, target_defaults={}))
            try:
                for t in submit:
                    be.submit(t, [])
                return {t.name: be.status(t) for t in ask}, dict(be._tracked_jobs)
            finally:
                be.close()

        A = Target(name="A", inputs=[], outputs=[], options={}, working_dir=str(d), spec="exit 0")
        B = Target(name="B", inputs=[], outputs=[], options={}, working_dir=str(d), spec="sleep 5")
        s1, srv1, port1 = await pool()
        _, tracked1 = await loop.run_in_executor(None, invocation, port1, (A,), ())
        await settle(s1, list(s1.tasks))
        st, _ = await loop.run_in_executor(None, invocation, port1, (), (A,))
        if st["A"] not in (BackendStatus.COMPLETED, BackendStatus.UNKNOWN):
            problems.append(f"restart: before the restart A (exit 0, finished) is reported {st['A']}")
        srv1.server.close()          # (wait_closed would wait for handler transports that are never closed)
        # the pool is started again (gwf workers), a second target is submitted by a later invocation
        s2, srv2, port2 = await pool()
        _, tracked2 = await loop.run_in_executor(None, invocation, port2, (B,), ())
        from gwf.backends.local import LocalStatus as L_
        for _ in range(200):                      # until B's process has started (load must not matter)
            if any(v == L_.RUNNING for v in s2.task_states.values()):
                break
            await asyncio.sleep(0.05)
        st, tracked3 = await loop.run_in_executor(None, invocation, port2, (), (A, B))
        if tracked3.get("A") == tracked3.get("B"):
            problems.append(f"restart: after a restart of the worker pool targets A and B are tracked under the same job id "
                            f"({tracked3}): A's entry now denotes B's job")
        if st["A"] not in (BackendStatus.COMPLETED, BackendStatus.UNKNOWN):
            problems.append(f"restart: A's job finished in the previous pool (no record in the new one), but A is reported "
                            f"{st['A'].name}: that is the state of B's running job {tracked3.get('B')!r}")
        if st["B"] != BackendStatus.RUNNING:
            problems.append(f"restart: B (sleep 5, just started, 2 cores free) is reported {st['B']}")
        # C07, local backend: a dependent submitted by a later invocation is held on the task id tracked for its
        # dependency (2 cores are free, so only the dependency can hold it back), and never starts if that one is cancelled
        C = Target(name="C", inputs=[], outputs=[], options={}, working_dir=str(d), spec="touch c_ran.txt")

        def invocation_dep(port):
            be = TrackingBackend(str(d), name="local", ops=LocalOps(str(d), "127.0.0.1", port, target_defaults={}))
            try:
                be.submit(C, [B])
                return dict(be._tracked_jobs)
            finally:
                be.close()

        tracked4 = await loop.run_in_executor(None, invocation_dep, port2)
        await asyncio.sleep(0.3)
        from gwf.backends.local import LocalStatus as L
        tc, tb = tracked4.get("C"), tracked4.get("B")
        if s2.task_states.get(tc) != L.SUBMITTED or (d / "c_ran.txt").exists():
            problems.append(f"restart: C depends on B (task {tb}, still running): C is {s2.task_states.get(tc)} "
                            f"{'and has run' if (d / 'c_ran.txt').exists() else ''} instead of waiting (SUBMITTED)")
        await s2.cancel_task(tb)
        await settle(s2, [tb, tc])
        if s2.task_states.get(tc) == L.COMPLETED or (d / "c_ran.txt").exists():
            problems.append(f"restart: B was cancelled, yet its dependent C ran (state {s2.task_states.get(tc)})")
        for t in list(s2.tasks):
            await s2.cancel_task(t)
        await settle(s2, list(s2.tasks))
        srv2.server.close()
    finally:
        shutil.rmtree(d, ignore_errors=True)


def replay_restart(eng, ob, model, seed):
    import logging
    problems = []
    logging.disable(logging.CRITICAL)
    try:
        loop = asyncio.new_event_loop()
        loop.set_exception_handler(lambda l, c: None)
        loop.run_until_complete(asyncio.wait_for(restart_case(problems), 60))
        loop.close()
    except Exception as e:
        problems.append(f"restart scenario raised {type(e).__name__}: {e}")
    finally:
        logging.disable(logging.NOTSET)
    if not problems:
        return {"failed_on_real_code": False, "candidates_tried": 1,
                "bound": "one restart of the pool, 2 targets, 4 invocations of the local backend"}
    return {"failed_on_real_code": True, "input": {"scenario": "gwf -b local run A; restart `gwf workers`; run B; status"},
            "observed": problems, "candidates_tried": 1, "witness_class": "local-pool-restart-reuses-ids",
            "call": "real Scheduler/Server twice on 127.0.0.1, real LocalOps + TrackingBackend clients"}

"""Bounded refuter / CPython cross-check for gwf.conf (replay only).
Bound: keys from a pool of 7 (incl. defaulted keys and namespace look-alikes), values from a pool of 12
texts, operation sequences of length <= 3 over set / unset / dump+load, then get / get_namespace."""
import itertools
import json
import os
import shutil
import tempfile

KEYS = ["verbose", "clean_logs", "backend", "backend.slurm", "backend.slurm.log_mode", "backend.slurmx.foo", "x"]
VALUES = ["0", "7", "-3", "007", "true", "yes", "false", "no", "True", "full", "", "1.5"]
DEFAULTS = None


def conv(v):
    """C20: canonical integers and yes/no/true/false coerced, everything else kept as text;
    returns a SET of allowed results where the statement leaves the reading open"""
    import re
    if re.fullmatch(r"-?(0|[1-9][0-9]*)", v) and v != "-0":
        return {int(v)}
    if v in ("true", "yes"):
        return {True}
    if v in ("false", "no"):
        return {False}
    try:
        return {int(v), v}      # other spellings int() accepts: either reading is allowed
    except ValueError:
        return {v}


def run_script(script):
    from gwf.conf import FileConfig, CONFIG_DEFAULTS
    wd = tempfile.mkdtemp(prefix="gwfverif-")
    problems = []
    try:
        path = os.path.join(wd, ".gwfconf.json")
        cfg = FileConfig.load(path)
        user = {}            # oracle: key -> set of allowed values
        for op in script:
            try:
                if op[0] == "set":
                    cfg[op[1]] = op[2]
                    user[op[1]] = conv(op[2])
                elif op[0] == "unset":
                    del cfg[op[1]]
                    user.pop(op[1], None)
                elif op[0] == "reload":
                    cfg.dump()
                    on_disk = json.load(open(path))
                    if set(on_disk) != set(user):
                        problems.append(f"file holds keys {sorted(on_disk)}, user-set keys are {sorted(user)}")
                    cfg = FileConfig.load(path)
            except Exception as e:
                problems.append(f"{op} raised {type(e).__name__}: {e}")
                return problems
        for k in KEYS:
            got = cfg.get(k, "<not set>")
            if k in user:
                ok = any(got == w and type(got) is type(w) for w in user[k])
            elif k in CONFIG_DEFAULTS:
                ok = got == CONFIG_DEFAULTS[k]
            else:
                ok = got == "<not set>"
            if not ok:
                problems.append(f"get({k!r}) == {got!r}, user map {user.get(k)}, default {CONFIG_DEFAULTS.get(k)}")
        ns = "backend.slurm"
        got_ns = cfg.get_namespace(ns)
        merged = dict(CONFIG_DEFAULTS)
        want_keys = {k[len(ns) + 1:] for k in list(user) + list(merged) if k.startswith(ns + ".")}
        if set(got_ns) != want_keys:
            problems.append(f"get_namespace({ns!r}) has keys {sorted(got_ns)}, the settings under {ns}.* are {sorted(want_keys)}")
        return problems
    finally:
        shutil.rmtree(wd, ignore_errors=True)


def relevant(problems, focus):
    if focus is None:
        return problems
    keep = {"delitem": ("'unset'",), "namespace": ("get_namespace",), "other": ()}[focus]
    if focus == "other":
        return [p for p in problems if "get_namespace" not in p and "'unset'" not in p]
    return [p for p in problems if any(k in p for k in keep)]


def search(budget=6000, focus=None):
    ops = [("unset", k) for k in KEYS[:5]] + [("reload",)]
    ops += [("set", k, v) for k in ("x", "verbose", "backend.slurm", "backend.slurm.log_mode", "backend.slurmx.foo")
            for v in ("0", "007", "yes", "no", "full")]
    tried = 0
    for n in (1, 2, 3):
        for script in itertools.product(ops, repeat=n):
            tried += 1
            if tried > budget:
                return None, tried
            pr = relevant(run_script(list(script)), focus)
            if pr:
                return {"script": [list(o) for o in script], "problems": pr}, tried
    # value pool
    for v in VALUES:
        tried += 1
        pr = relevant(run_script([("set", "x", v), ("reload",)]), focus)
        if pr:
            return {"script": [["set", "x", v], ["reload"]], "problems": pr}, tried
    return None, tried


def classify(w):
    p = " ".join(w["problems"])
    if "raised KeyError" in p and w["script"][-1][0] == "unset":
        return "unset-of-key-not-in-user-map"
    if "get_namespace" in p:
        return "namespace-prefix-without-dot"
    return "conf-other"


def replay(eng, ob, model, seed):
    # the search reports only failures of the function whose obligation failed
    keys = " ".join(ob if isinstance(ob, (list, tuple)) else [ob.fn_key])
    focus = None if not keys else ("delitem" if "__delitem__" in keys and "get_namespace" not in keys else
                                   ("namespace" if "get_namespace" in keys and "__delitem__" not in keys else None))
    w, tried = search(focus=focus)
    if w is None:
        return {"failed_on_real_code": False, "candidates_tried": tried,
                "bound": "scripts of <=3 operations over 7 keys x 12 values"}
    return {"failed_on_real_code": True, "input": w, "observed": w["problems"], "candidates_tried": tried,
            "witness_class": classify(w), "call": "FileConfig.load(path) driven by the script, then get / get_namespace"}

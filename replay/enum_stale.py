"""Bounded refuter / CPython cross-check for gwf.scheduling.should_run against the make-style oracle of C01
(replay only, never counted as proof).
Bound: <= 2 declared inputs and <= 2 declared outputs over 4 file names (so that input names sort before AND after
output names), every container shape (string, list, nested list, dict, dict of lists), every subset of outputs
existing, modification times from {1.0, 2.0} (ties included), spec hash changed / unchanged."""
import itertools

NAMES = ["a_f", "m_f", "n_f", "z_f"]


def shapes(paths):
    """the same set of declared paths in different container shapes"""
    paths = list(paths)
    out = [list(paths), [list(paths)], {"k%d" % i: p for i, p in enumerate(paths)}, {"all": list(paths)}]
    if len(paths) == 1:
        out.append(paths[0])
    if len(paths) == 2:
        out.append([paths[0], [paths[1]]])
        out.append({"x": paths[0], "rest": [paths[1]]})
    if not paths:
        out = [[], {}, {"none": []}, [[]]]
    return out


def stale(I, O, exists, mtime, changed):
    """C01: run unless at least one output is declared, all exist, no input strictly newer than the oldest output,
    spec unchanged"""
    if changed or not O or any(not exists[o] for o in O):
        return True
    return any(mtime[i] > min(mtime[o] for o in O) for i in I)


def search(budget=200000):
    import os
    import gwf.scheduling as S
    from gwf.core import Target
    tried = 0
    thorough = os.environ.get("VERIF_TIER") == "thorough"
    times = [1.0, 2.0, 3.0] if thorough else [1.0, 2.0]
    if thorough:
        budget = 3000000
    for ni, no in itertools.product(range(3), range(3)):
        for names in itertools.permutations(NAMES, ni + no):
            I, O = list(names[:ni]), list(names[ni:])
            if I != sorted(I) or O != sorted(O):
                continue                      # sets of paths; order inside a container is covered by the shapes
            for ins, outs in itertools.product(shapes(I), shapes(O)):
                try:
                    tgt = Target(name="T", inputs=ins, outputs=outs, options={}, working_dir="/w")
                except Exception as e:
                    return {"inputs": ins, "outputs": outs, "problem": f"Target() raised {type(e).__name__}: {e}"}, tried
                PI, PO = ["/w/" + p for p in I], ["/w/" + p for p in O]
                for ex in itertools.product([True, False], repeat=len(O)):
                    for mt in itertools.product(times, repeat=len(I) + len(O)):
                        for changed in (False, True):
                            tried += 1
                            if tried > budget:
                                return None, tried
                            exists = dict(zip(PO, ex))
                            exists.update({p: True for p in PI})          # precondition: inputs exist
                            mtime = dict(zip(PI + PO, mt))

                            class FS:
                                def exists(self, p):
                                    return exists[p]

                                def changed_at(self, p):
                                    if not exists[p]:
                                        raise FileNotFoundError(p)
                                    return mtime[p]

                            class H:
                                def has_changed(self, t):
                                    return "h" if changed else None

                            want = stale(PI, PO, exists, mtime, changed)
                            try:
                                got = S.should_run(tgt, FS(), H())
                            except Exception as e:
                                got = f"raised {type(e).__name__}: {e}"
                            if got != want:
                                return {"inputs": ins, "outputs": outs, "exists": exists, "mtime": mtime,
                                        "spec_changed": changed, "should_run returned": got, "C01 prescribes": want}, tried
    return None, tried


def replay(eng, ob, model, seed):
    w, tried = search()
    if w is None:
        return {"failed_on_real_code": False, "candidates_tried": tried,
                "bound": "<=2 inputs, <=2 outputs over 4 names, 4-7 container shapes, mtimes {1,2}, outputs present/"
                         "missing, spec changed/unchanged"}
    cls = "outputs-without-files" if not w.get("exists") and "problem" not in w else "should-run-other"
    return {"failed_on_real_code": True, "input": {k: v for k, v in w.items() if k not in ("should_run returned", "C01 prescribes")},
            "observed": w.get("should_run returned", w.get("problem")), "required": w.get("C01 prescribes"),
            "candidates_tried": tried, "witness_class": cls,
            "call": "gwf.scheduling.should_run(Target(inputs, outputs), fs, spec_hashes)"}


def replay_fs(eng, ob, model, seed):
    """the real CachedFilesystem on a temporary directory against os.stat: present / absent files, explicit mtimes
    (also older than ctime), repeated queries"""
    import os
    import shutil
    import tempfile
    from gwf.core import CachedFilesystem
    d = tempfile.mkdtemp(prefix="gwfverif-")
    problems, tried = [], 0
    try:
        files = {"old.txt": 1000000000.0, "new.txt": 1500000000.5, "sub/deep.txt": 1234567890.25, "epoch.txt": 0.0}
        os.makedirs(os.path.join(d, "sub"))
        for rel, mt in files.items():
            open(os.path.join(d, rel), "w").close()
            os.utime(os.path.join(d, rel), (mt + 77, mt))           # atime differs from mtime; ctime is now
        for order in (sorted(files), sorted(files, reverse=True)):
            fs = CachedFilesystem()
            for rel in list(order) + ["missing.txt", "sub/missing.txt"] + list(order):
                p = os.path.join(d, rel)
                tried += 1
                want_exists = rel in files
                try:
                    got = fs.exists(p)
                except Exception as e:
                    got = f"raised {type(e).__name__}"
                if got != want_exists:
                    problems.append(f"CachedFilesystem.exists({rel!r}) -> {got}, os.path.exists says {want_exists}")
                try:
                    mt = fs.changed_at(p)
                except FileNotFoundError:
                    mt = "FileNotFoundError"
                except Exception as e:
                    mt = f"raised {type(e).__name__}"
                want = files.get(rel, "FileNotFoundError")
                if mt != want:
                    problems.append(f"CachedFilesystem.changed_at({rel!r}) -> {mt}, the file's modification time is {want}")
    finally:
        shutil.rmtree(d, ignore_errors=True)
    if not problems:
        return {"failed_on_real_code": False, "candidates_tried": tried, "bound": "4 files (one dated at the epoch) + 2 absent paths, two query orders"}
    return {"failed_on_real_code": True, "input": {"files (mtime)": files}, "observed": problems[:4],
            "candidates_tried": tried, "witness_class": "cached-filesystem", "call": "gwf.core.CachedFilesystem() on a temporary directory"}

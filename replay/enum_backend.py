"""Bounded refuter / CPython cross-check for TrackingBackend (replay only). Scripts a fake `ops`
object and runs the real class in a temporary project directory.
Bound: <= 3 target names, operation sequences of length <= 4 over submit/status/cancel/close+reload, continued by
<= 2 submissions and a close in a second invocation,
ops.submit_target/close/cancel_job each may raise."""
import itertools
import json
import os
import shutil
import tempfile


class FakeOps:
    target_defaults = {}

    def __init__(self, fail_submit=(), close_raises=False, states=None):
        self.n = 100
        self.fail_submit = set(fail_submit)
        self.close_raises = close_raises
        self.accepted = []          # (id, target name, dependency ids)
        self.cancelled = []
        self.states = states or {}
        self.calls = 0

    def get_job_states(self, tracked):
        from gwf.backends.base import BackendStatus
        return {j: self.states.get(j, BackendStatus.SUBMITTED) for j in tracked if j in self.states or True}

    def submit_target(self, target, dependency_ids):
        from gwf.backends.exceptions import BackendError
        self.calls += 1
        if self.calls in self.fail_submit:
            raise BackendError("rejected")
        self.n += 1
        jid = str(self.n)
        self.accepted.append((jid, target.name, list(dependency_ids)))
        return jid

    def cancel_job(self, job_id):
        self.cancelled.append(job_id)

    def close(self):
        if self.close_raises:
            raise OSError("connection lost")


def run_case(close_raises, fail_submit, script, later_state=None):
    """script: list of ('submit', name, [dep names]) | ('close',) ; returns list of problems"""
    from gwf.backends.base import TrackingBackend, BackendStatus
    from gwf.backends.exceptions import BackendError
    from gwf.core import Target
    wd = tempfile.mkdtemp(prefix="gwfverif-", dir=os.environ.get("GWF_VERIF_TMP") or None)
    problems = []
    try:
        os.makedirs(os.path.join(wd, ".gwf", "logs"))
        ops = FakeOps(fail_submit=fail_submit, close_raises=close_raises)
        tg = {n: Target(name=n, inputs=[], outputs=[], options={}, working_dir=wd) for n in ("a", "b", "c")}
        be = TrackingBackend(wd, name="fake", ops=ops)
        want_tracked = {}
        for step in script:
            if step[0] == "submit":
                _, name, deps = step
                if any(d not in want_tracked for d in deps):
                    continue
                before = dict(want_tracked)
                try:
                    be.submit(tg[name], [tg[d] for d in deps])
                    jid, tname, dep_ids = ops.accepted[-1]
                    if tname != name or dep_ids != [before[d] for d in deps]:
                        problems.append(f"submit({name},{deps}) reached the scheduler as {ops.accepted[-1]}")
                    want_tracked[name] = jid
                    if be.status(tg[name]) != BackendStatus.SUBMITTED:
                        problems.append(f"status after accepted submit of {name} is {be.status(tg[name])}")
                except BackendError:
                    pass
            elif step[0] == "close":
                try:
                    be.close()
                except OSError:
                    pass
                path = os.path.join(wd, ".gwf", "fake-backend-tracked.json")
                try:
                    on_disk = json.load(open(path))
                except FileNotFoundError:
                    on_disk = None
                except ValueError:
                    on_disk = "unreadable"
                if on_disk != want_tracked:
                    problems.append(f"after close() the tracked-jobs file holds {on_disk}, accepted jobs are {want_tracked}")
                ops2 = FakeOps()
                be2 = TrackingBackend(wd, name="fake", ops=ops2) if on_disk != "unreadable" else None
                if be2 is not None and dict(be2._tracked_jobs) != want_tracked:
                    problems.append(f"a new invocation tracks {dict(be2._tracked_jobs)}, accepted jobs are {want_tracked}")
                if be2 is None or problems:
                    return problems
                # the script goes on in the new invocation (ids keep counting: the scheduler is the same one)
                ops2.n = ops.n
                be, ops = be2, ops2
                if later_state is not None:
                    # what the scheduler says about the jobs of the earlier invocation when the next one starts
                    from gwf.backends.base import BackendStatus
                    if later_state == "ABSENT":
                        ops.states = {}                     # no record at all (neither queue nor accounting)
                    else:
                        st_ = getattr(BackendStatus, later_state)
                        ops.states = {j: st_ for j in want_tracked.values()}
                    ops.get_job_states = lambda tracked, ops=ops: {j: ops.states[j] for j in tracked if j in ops.states}
                    be = TrackingBackend(wd, name="fake", ops=ops)
        return problems
    finally:
        shutil.rmtree(wd, ignore_errors=True)


def check_exit_paths():
    """C09: whatever ends the `with backend:` block - normal end, a rejected submission, any other exception, Ctrl-C - the
    ids accepted so far are on disk afterwards (TrackingBackend.__exit__)"""
    from gwf.backends.base import TrackingBackend
    from gwf.backends.exceptions import BackendError
    from gwf.core import Target
    problems, tried = [], 0
    for exc in (None, BackendError("rejected"), RuntimeError("boom"), TypeError("garbage scheduler output"),
                OSError("disk"), KeyboardInterrupt()):
        for accepted_before in (1, 2):
            tried += 1
            wd = tempfile.mkdtemp(prefix="gwfverif-", dir=os.environ.get("GWF_VERIF_TMP") or None)
            try:
                os.makedirs(os.path.join(wd, ".gwf", "logs"))
                ops = FakeOps()
                tg = [Target(name=n, inputs=[], outputs=[], options={}, working_dir=wd) for n in ("a", "b", "c")]
                want = {}
                try:
                    with TrackingBackend(wd, name="fake", ops=ops) as be:
                        for t in tg[:accepted_before]:
                            be.submit(t, [])
                            want[t.name] = ops.accepted[-1][0]
                        if exc is not None:
                            raise exc
                except BaseException as e:
                    if e is not exc:
                        problems.append(f"exit paths: unexpected {type(e).__name__}: {e}")
                path = os.path.join(wd, ".gwf", "fake-backend-tracked.json")
                try:
                    on_disk = json.load(open(path))
                except FileNotFoundError:
                    on_disk = None
                except ValueError:
                    on_disk = "unreadable"
                if on_disk != want:
                    problems.append(f"exit paths: the run was interrupted by {type(exc).__name__ if exc else 'nothing'} after "
                                    f"{accepted_before} accepted submission(s) {want}; the tracked-jobs file holds {on_disk}")
                    return problems, tried
            finally:
                shutil.rmtree(wd, ignore_errors=True)
    return problems, tried


def check_cancel():
    """C17: cancel_many attempts the latest job of every selected target, whatever happens to the others"""
    import itertools as it
    from gwf.backends.base import TrackingBackend, BackendStatus
    from gwf.backends.exceptions import BackendError
    from gwf.core import Target
    from gwf.plugins.cancel import cancel_many
    problems = []
    for listed in (("1",), (), ("1", "2", "3")):
        for failing in ((), ("2",), ("1", "3")):
            for order in it.permutations(("a", "b", "c", "d")):
                wd = tempfile.mkdtemp(prefix="gwfverif-")
                try:
                    os.makedirs(os.path.join(wd, ".gwf", "logs"))
                    json.dump({"a": "1", "b": "2", "c": "3"}, open(os.path.join(wd, ".gwf", "fake-backend-tracked.json"), "w"))
                    ops = FakeOps()
                    ops.get_job_states = lambda tracked, listed=listed: {j: BackendStatus.RUNNING for j in tracked if j in listed}

                    def cancel_job(job_id, ops=ops, failing=failing):
                        ops.cancelled.append(job_id)
                        if job_id in failing:
                            raise BackendError("cannot cancel")

                    ops.cancel_job = cancel_job
                    be = TrackingBackend(wd, name="fake", ops=ops)
                    tg = [Target(name=n, inputs=[], outputs=[], options={}, working_dir=wd) for n in order]
                    try:
                        import io, contextlib
                        with contextlib.redirect_stdout(io.StringIO()), contextlib.redirect_stderr(io.StringIO()):
                            cancel_many(be, tg)
                    except BaseException as e:
                        problems.append(f"cancel {order} (scheduler lists {listed}, cancel fails for {failing}): "
                                        f"cancel_many raised {type(e).__name__}: {e} after cancelling {ops.cancelled}")
                        return problems
                    want = [{"a": "1", "b": "2", "c": "3"}[n] for n in order if n != "d"]
                    if ops.cancelled != want:
                        problems.append(f"cancel {order} (scheduler lists {listed}, cancel fails for {failing}): "
                                        f"scheduler was asked to cancel {ops.cancelled}, the selected targets' latest jobs are {want}")
                        return problems
                finally:
                    shutil.rmtree(wd, ignore_errors=True)
    return problems


def search():
    tried = 0
    scripts = []
    subs = [("submit", "a", []), ("submit", "b", ["a"]), ("submit", "c", ["a", "b"]), ("submit", "a", [])]
    for k in range(0, 4):
        for seq in itertools.permutations(subs, k):
            scripts.append(list(seq) + [("close",)])
            # a second invocation that submits again (possibly the same targets) and closes
            for k2 in range(1, 3):
                for seq2 in itertools.permutations(subs, k2):
                    scripts.append(list(seq) + [("close",)] + list(seq2) + [("close",)])
    for close_raises in (False, True):
        for fail in ((), (1,), (2,)):
            for sc in scripts:
                tried += 1
                pr = run_case(close_raises, fail, sc)
                if pr:
                    return {"ops.close raises": close_raises, "rejected submit calls": list(fail), "script": sc,
                            "problems": pr}, tried
    # histories: the jobs of the first invocation have failed / were cancelled / completed / are forgotten by the
    # scheduler when the second invocation opens and closes the backend (e.g. `gwf status`)
    for later in ("FAILED", "CANCELLED", "COMPLETED", "UNKNOWN", "RUNNING", "ABSENT"):
        for sc in scripts:
            if sc.count(("close",)) < 2:
                continue
            tried += 1
            pr = run_case(False, (), sc, later_state=later)
            if pr:
                return {"ops.close raises": False, "rejected submit calls": [], "script": sc,
                        "state of the earlier jobs at the second invocation": later, "problems": pr}, tried
    return None, tried


def replay_cancel(eng, ob, model, seed):
    pr = check_cancel()
    if not pr:
        return {"failed_on_real_code": False, "candidates_tried": 216,
                "bound": "4 targets in every order x 3 sets of listed jobs x 3 sets of failing cancels"}
    return {"failed_on_real_code": True, "input": {"scenario": pr[0].split(":")[0]}, "observed": pr, "candidates_tried": 216,
            "witness_class": "cancel-many", "call": "gwf.plugins.cancel.cancel_many(TrackingBackend(fake ops), targets)"}


def replay(eng, ob, model, seed):
    pr, n_exit = check_exit_paths()
    if pr:
        return {"failed_on_real_code": True, "input": {"scenario": "with TrackingBackend(...) as backend: submit...; raise"},
                "observed": pr, "candidates_tried": n_exit, "witness_class": "exit-path-loses-tracked-jobs",
                "call": "TrackingBackend(wd, 'fake', ops=FakeOps()) used as a context manager"}
    w, tried = search()
    tried += n_exit
    if w is None:
        return {"failed_on_real_code": False, "candidates_tried": tried,
                "bound": "<=3 targets, <=3 submissions + close, then <=2 submissions in a second invocation + close; "
                         "ops.close / ops.submit_target may raise"}
    wc = "close-raising-ops-loses-tracked-jobs" if w["ops.close raises"] else "backend-other"
    return {"failed_on_real_code": True, "input": w, "observed": w["problems"], "candidates_tried": tried,
            "witness_class": wc, "call": "TrackingBackend(wd, 'fake', ops=FakeOps(...)) driven by the script"}

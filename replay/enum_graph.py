"""Bounded refuter / CPython cross-check for Graph.from_targets, Graph.endpoints and the cycle
check (replay only, never counted as proof).
Bound: <= 3 targets, each in one of 3 working directories (/w, /w/sub, /w/other), inputs/outputs lists of
length <= 2 over 3 files x 9 spellings (./, d/../, absolute, ../ climbing out of the working directory, a sibling
directory, trailing /.), every subset of files existing; structured cases first (duplicates, self loop, 2- and 3-cycles), then VERIF_SEED-seeded
pseudo-random workflows."""
import itertools
import os
import random

WD = "/w"
FILES = ["x", "y", "z"]


WDS = [WD, WD + "/sub", WD + "/other"]


def spellings(f):
    """spellings of the file /w/<f> that are correct from every working directory in WDS, plus ones relative to WD"""
    return [f, "./" + f, "d/../" + f, WD + "/" + f, WD + "/./" + f]


def spellings_from(f, wd):
    """spellings of the one file /w/<f> as written by a target whose working directory is wd"""
    if wd == WD:
        return spellings(f) + ["sub/../" + f, "../w/" + f, f + "/."]
    return ["../" + f, "./../" + f, "../other/../" + f, WD + "/" + f, WD + "/sub/../" + f, "../" + f + "/."]


def canon(p, wd=WD):
    return os.path.abspath(os.path.join(wd, p))      # a relative working directory is relative to the invoking one


def leaves(v):
    """the paths of a nested inputs/outputs value, whatever the grouping (C01/C03: only the set of paths matters)"""
    from collections.abc import Mapping
    if isinstance(v, str) or hasattr(v, "__fspath__"):
        return [v]
    if isinstance(v, Mapping):
        return [p for x in v.values() for p in leaves(x)]
    return [p for x in v for p in leaves(x)]


def wd_of(spec):
    return spec[2] if len(spec) > 2 else WD


def oracle(specs, existing):
    """specs: list of (inputs, outputs) raw path lists"""
    n = len(specs)
    outs = [{canon(p, wd_of(sp)) for p in leaves(sp[1])} for sp in specs]
    ins = [{canon(p, wd_of(sp)) for p in leaves(sp[0])} for sp in specs]
    multi = any(outs[a] & outs[b] for a in range(n) for b in range(n) if a != b)
    provided = set().union(*outs) if outs else set()
    missing = any(p not in provided and p not in existing for i in ins for p in i)
    dep = {b: {a for a in range(n) if ins[b] & outs[a]} for b in range(n)}
    # cycle detection (including self loops)
    color = {}

    def dfs(u):
        color[u] = 1
        for v in dep[u]:
            if color.get(v) == 1 or (color.get(v) is None and dfs(v)):
                return True
        color[u] = 2
        return False

    cyc = any(color.get(u) is None and dfs(u) for u in range(n))
    return {"multi": multi, "missing": missing, "cycle": cyc, "dep": dep, "outs": outs, "ins": ins,
            "provided": provided}


def check_one(specs, existing_files):
    from gwf.core import Graph, Target, FileProvidedByMultipleTargetsError, UnresolvedInputError, \
        CircularDependencyError
    existing = {canon(f) for f in existing_files}
    keep = lambda v: v if not isinstance(v, list) else list(v)
    targets = {f"t{i}": Target(name=f"t{i}", inputs=keep(sp[0]), outputs=keep(sp[1]), options={},
                               working_dir=wd_of(sp))
               for i, sp in enumerate(specs)}

    class FS:
        def exists(self, p):
            return canon(p) in existing

        def changed_at(self, p):
            return 1.0

    o = oracle(specs, existing)
    try:
        g = Graph.from_targets(targets, FS())
    except FileProvidedByMultipleTargetsError:
        return [] if o["multi"] else ["FileProvidedByMultipleTargetsError although no file is produced by two targets"]
    except UnresolvedInputError:
        return [] if o["missing"] else ["UnresolvedInputError although every unprovided input exists"]
    except CircularDependencyError:
        return [] if o["cycle"] else ["CircularDependencyError although the dependency relation is acyclic"]
    except Exception as e:
        return [f"graph building raised {type(e).__name__}: {e}"]
    problems = []
    if o["multi"] or o["missing"] or o["cycle"]:
        problems.append(f"accepted although ill-formed (multi={o['multi']} missing={o['missing']} cycle={o['cycle']})")
        return problems
    idx = {t: i for i, t in enumerate(targets.values())}
    n = len(specs)
    got_dep = {b: {idx[a] for a in g.dependencies.get(t, set())} for t, b in idx.items()}
    if got_dep != o["dep"]:
        problems.append(f"dependencies {got_dep} != path-induced relation {o['dep']}")
    got_inv = {a: {idx[b] for b in g.dependents.get(t, set())} for t, a in idx.items()}
    want_inv = {a: {b for b in range(n) if a in o["dep"][b]} for a in range(n)}
    if got_inv != want_inv:
        problems.append(f"dependents {got_inv} is not the inverse {want_inv}")
    got_end = {idx[t] for t in g.endpoints()}
    want_end = {a for a in range(n) if not want_inv[a]}
    if got_end != want_end:
        problems.append(f"endpoints {got_end} != {want_end}")
    prov = {os.fspath(p): idx[t] for p, t in g.provides.items()}     # keys are the normalised paths themselves
    want_prov = {p: a for a in range(n) for p in o["outs"][a]}
    if prov != want_prov:
        problems.append(f"provides {prov} != {want_prov}")
    unres = {os.fspath(p) for p in g.unresolved}
    want_unres = set().union(*o["ins"]) - o["provided"] if o["ins"] else set()
    if unres != want_unres:
        problems.append(f"unresolved {unres} != {want_unres}")
    return problems


def structured():
    yield [([], ["x", "x"])], []                       # one target listing a file twice
    yield [([], ["x", "./x"])], []
    yield [(["x"], ["x"])], []                         # consumes its own output
    yield [(["y"], ["x"]), (["x"], ["y"])], []         # 2-cycle
    yield [(["z"], ["x"]), (["x"], ["y"]), (["y"], ["z"])], []   # 3-cycle
    yield [([], ["x"]), ([], ["./x"])], []             # two producers, different spellings
    yield [([], [WD + "/x"]), (["x"], ["y"])], []      # absolute output, relative input
    yield [([], ["x"]), ([WD + "/./x"], ["y"])], []    # absolute non-normalised input
    yield [([], ["x"]), (["d/../x"], ["y"])], []
    yield [(["x"], ["y"])], ["x"]
    yield [(["x"], ["y"])], []
    # targets in different working directories naming one file (C03: "no matter how it is spelled")
    yield [([], ["x"], WD), (["../x"], ["y"], WD + "/sub")], []
    yield [([], ["../x"], WD + "/sub"), (["../x"], ["y"], WD + "/other")], []
    yield [([], ["../x"], WD + "/sub"), ([], [WD + "/x"], WD + "/other")], []      # two producers, two spellings
    yield [([], ["../other/x"], WD + "/sub"), (["x"], ["../y"], WD + "/other")], []
    yield [([], ["."], WD + "/sub"), (["sub"], ["y"], WD)], []                     # the working directory itself
    yield [(["../x"], ["../y"], WD + "/sub"), (["y"], ["x"], WD)], []              # 2-cycle across directories
    # container shapes: any Mapping / nested sequence groups the same paths (read-only mapping views, tuples)
    from types import MappingProxyType as MP
    yield [([], MP({"out": "x"})), (MP({"a": ["x"], "b": MP({"c": "./x"})}), ("y",))], []
    yield [([], {"k": ("x", ["y"])}), (MP({"in": "d/../y"}), MP({"o": "z"}))], []
    # relative working directories (Target's default is "."): resolved against the invoking directory
    cwd = os.getcwd()
    yield [([], ["x"], "."), ([os.path.join(cwd, "x")], ["y"], WD)], []
    yield [([], [os.path.join(cwd, "rel", "x")], WD), (["x"], ["y"], "rel")], []
    yield [([], ["x"], "rel"), (["rel/x"], ["y"], ".")], []
    yield [([], ["../x"], "rel/deeper"), ([os.path.join(cwd, "rel", "x")], [], WD)], []


def search(seed=0, budget=30000):
    rnd = random.Random(seed)
    pool = [s for f in FILES for s in spellings(f)]
    tried = 0

    def cases():
        yield from structured()
        # exhaustive: one and two targets over plain spellings, lists of length <= 1
        plain = [[], ["x"], ["y"]]
        for a in itertools.product(plain, repeat=2):
            for ex in ([], ["x"], ["y"], ["x", "y"]):
                yield [a], ex
        for a in itertools.product(plain, repeat=4):
            for ex in ([], ["x", "y"]):
                yield [(a[0], a[1]), (a[2], a[3])], ex
        while True:
            n = rnd.choice([1, 2, 2, 3, 3])
            specs = []
            multi_wd = rnd.random() < 0.5
            for _ in range(n):
                if multi_wd:
                    wd = rnd.choice(WDS)
                    pl = [s_ for f in FILES for s_ in spellings_from(f, wd)]
                    specs.append(([rnd.choice(pl) for _ in range(rnd.choice([0, 1, 1, 2]))],
                                  [rnd.choice(pl) for _ in range(rnd.choice([0, 1, 1, 2]))], wd))
                    continue
                specs.append(([rnd.choice(pool) for _ in range(rnd.choice([0, 1, 1, 2]))],
                              [rnd.choice(pool) for _ in range(rnd.choice([0, 1, 1, 2]))]))
            yield specs, [f for f in FILES if rnd.random() < 0.6]

    for specs, ex in cases():
        tried += 1
        if tried > budget:
            return None, tried
        problems = check_one(specs, ex)
        if problems:
            plain = lambda v: v if isinstance(v, (str, int, float, type(None))) else (
                {k: plain(x) for k, x in v.items()} if hasattr(v, "items") else [plain(x) for x in v])
            return {"targets(inputs,outputs[,working_dir])": [plain(sp) for sp in specs],
                    "containers": repr(specs)[:600], "working_dir": WD, "existing_files": ex,
                    "problems": problems}, tried
    return None, tried


def classify(w):
    p = " ".join(w["problems"])
    if "FileProvidedByMultipleTargetsError although" in p:
        return "multi-provider-error-for-single-target"
    return "graph-other"


def replay(eng, ob, model, seed):
    thorough = os.environ.get("VERIF_TIER") == "thorough"
    w, tried = search(seed, 600000 if thorough else 30000)
    if w is None:
        return {"failed_on_real_code": False, "candidates_tried": tried,
                "bound": "<=3 targets in 3 working directories, lists <=2 over 3 files x 9 spellings, structured + "
                         "seeded random cases"}
    return {"failed_on_real_code": True, "input": w, "observed": w["problems"], "candidates_tried": tried,
            "call": "gwf.core.Graph.from_targets(targets, fs)", "witness_class": classify(w)}

-- Meta-lemmas used outside the SMT solvers (design-round scratch).
-- 1. A strictly decreasing integer rank along edges excludes cycles.
theorem rank_lt_of_transGen {α : Type} (edge : α → α → Prop) (rank : α → Int)
    (h : ∀ a b, edge a b → rank b < rank a) :
    ∀ a b, Relation.TransGen edge a b → rank b < rank a := by
  intro a b hab
  induction hab with
  | single hab => exact h _ _ hab
  | tail _ hbc ih => exact Int.lt_trans (h _ _ hbc) ih

theorem no_cycle_of_rank {α : Type} (edge : α → α → Prop) (rank : α → Int)
    (h : ∀ a b, edge a b → rank b < rank a) :
    ¬ ∃ a, Relation.TransGen edge a a := by
  intro ⟨a, haa⟩
  exact Int.lt_irrefl _ (rank_lt_of_transGen edge rank h a a haa)

-- 2. Strong induction over an integer rank bounded below on the (finite) node set:
--    stated over Nat-valued rank, which is what the DFS finishing time provides.
theorem rank_induction {α : Type} (rank : α → Nat) (P : α → Prop)
    (step : ∀ t, (∀ u, rank u < rank t → P u) → P t) : ∀ t, P t := by
  intro t
  have : ∀ n, ∀ t, rank t < n → P t := by
    intro n
    induction n with
    | zero => intro t ht; exact absurd ht (Nat.not_lt_zero _)
    | succ n ih =>
      intro t ht
      apply step
      intro u hu
      exact ih u (Nat.lt_of_lt_of_le hu (Nat.le_of_lt_succ ht))
  exact this (rank t + 1) t (Nat.lt_succ_self _)

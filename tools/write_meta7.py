import json, os
os.chdir('/verif/seeded')
items = [
 ("S77","C01","mtime-path-tuples-compared","exact mtime tie and the input path sorting after the output path (as S21)"),
 ("S78","C02","close-merges-job-table-in-the-wrong-order","a target resubmitted after it already had a tracked job; seen by the run after next"),
 ("S79","C03","norm-path-normpath-instead-of-abspath","a relative working_dir (Target's default '.') and the same file spelled absolutely elsewhere"),
 ("S80","C04","norm-path-normalises-before-joining","a relative path starting with .. and another spelling of the same file"),
 ("S81","C05","run-falls-back-to-all-endpoints-on-empty-match","`gwf run <pattern>` matching nothing"),
 ("S82","C06","absolute-paths-returned-unnormalised","a non-normalised absolute path that exists on disk and another spelling elsewhere"),
 ("S83","C07","lsf-status-query-errors-swallowed","a transient bjobs failure while a dependency from an earlier run is still running"),
 ("S84","C08","unknown-states-dropped-and-close-persists-only-known-jobs","one `gwf status` while the job is transiently unknown to the scheduler"),
 ("S85","C09","stderr-check-iterates-characters","a submit command exiting 0 with 'error:' on stderr"),
 ("S86","C10","lsf-header-computed-once-per-run","LSF, several targets in one run with different options resolved to None"),
 ("S87","C11","falsy-dependency-ids-dropped","a pool whose ids count from 0 (Scheduler(tid_generator=itertools.count())) and a dependency on task 0"),
 ("S88","C12","acquired-flag-set-before-acquire-again","a task cancelled while waiting for a core (as S48)"),
 ("S89","C13","negative-return-code-counts-as-success-again","a task whose shell dies from a signal (as S49)"),
 ("S90","C14","blank-lines-tolerated-eof-spins","a client that disconnects without `close` (as S50)"),
 ("S91","C15","delete-file-swallows-only-file-not-found","a declared output that is a directory: IsADirectoryError aborts clean half-way"),
 ("S92","C16","bare-lru-cache-evicts-visited-targets","a cone of more than 128 targets with a shared dependency reached again late"),
 ("S93","C17","cancel-falls-back-to-all-targets-on-empty-match","`gwf cancel <names>` matching nothing"),
 ("S94","C18","spec-hash-close-merges-the-file-back","use_spec_hashes on and a recorded target cleaned (as S54)"),
 ("S95","C19","anonymous-target-working-dir-defaults-to-dot","template / map targets with relative paths, gwf run from another directory (reverts fix F16)"),
 ("S96","C20","configuration-assigned-after-the-colour-flag","an explicit no_color in the configuration and the opposite flag"),
]
how = {
 "S83": "FIRST PASS (blind): MISSED (exit 0): the LSF status query is bounded territory and no scenario made a status command FAIL. Now command-failure-kinds (runs on every change for C07, C09, C17) makes squeue / qstat / bjobs fail while a job is running: get_job_states must raise BackendError, not report the job as unknown",
 "S87": "FIRST PASS (blind): CHECKER ERROR (exit 3): the engine crashed on the empty tuple display `()` in the changed code. Fixed (mk_tuple); the function is now undecided (comprehension over `deps or ()`), and local-pool-scenarios gained a pool whose ids count from 0, which replays the violation",
 "S92": "FIRST PASS (blind): MISSED (exit 0): an UNSOUNDNESS of the engine: any decorator containing 'lru_cache' was given memo semantics ('at most once per argument'), which holds only for maxsize=None. Now only unbounded caches get memo semantics (anything else makes the function undecided), and cli-touch drives the real touch_workflow over two arms of 200 targets and records the order of the touches",
}
first = json.load(open('/tmp/seed7_first.json')) if os.path.exists('/tmp/seed7_first.json') else {}
second = json.load(open('/tmp/seed7_second.json')) if os.path.exists('/tmp/seed7_second.json') else {}
for sid, prop, slug, needs in items:
    new = f"{sid}-{prop}-{slug}"
    if os.path.isdir(sid): os.rename(sid, new)
    if not os.path.isdir(new): continue
    f1 = first.get(sid, {})
    f2 = second.get(sid)
    meta = {"id": new, "property": prop,
            "origin": "independent sub-agent given only the property text (and a kind of bug to prefer) and a scratch worktree; "
                      "this batch was triaged BLIND: nothing was changed between reading the reports and the first pass",
            "needs_to_manifest": needs,
            "confirmed": {"patch_applies_to_repo_HEAD": True, "existing_tests_with_change": "76 passed (same set)",
                          "demo_without_change": "exit 0", "demo_with_change": "exit 1",
                          "how": f"tools/seed_triage.sh {new} {prop} /verif/seeded/{new}  (scratch export of /repo HEAD, ./check --src)"},
            "check_result": {"command": f"tools/seed_triage.sh {new} {prop} /verif/seeded/{new}",
                             "first_pass_exit": f1.get("first"), "first_pass_lines": f1.get("lines", []),
                             "exit": (f2 or {}).get("exit", f1.get("first")), "final_lines": (f2 or {}).get("lines", f1.get("lines", [])),
                             "caught_by": how.get(sid, "caught in the blind first pass: see first_pass_lines")}}
    json.dump(meta, open(os.path.join(new, "meta.json"), "w"), indent=1)
print("ok")

import json, os, sys
os.chdir('/verif/seeded')
items = [
 ("S21","C01","tuple-comparison-breaks-mtime-ties-by-path","exact mtime tie between the youngest input and the oldest output, and the input's path sorting after the output's",
  "FIRST RUN: undecided only (tuple ordering unsupported, schedule refuter has no file names). Now: should_run:post:ens1 fails with a solver model (lexicographic tuple comparison, uninterpreted total order on paths), replayed by the new should-run-small-files refuter"),
 ("S22","C02","close-keeps-only-active-jobs","a target whose job failed or was cancelled while its outputs look up to date; an intermediate `gwf status` (close) forgets the entry; then `gwf run`",
  "FIRST RUN: undecided only (close:post:ens3 unknown; backend refuter used one scheduler state). Now: tracking-backend-scripts replays a second invocation whose earlier jobs are FAILED"),
 ("S23","C03","norm-path-without-abspath","a target with a relative working_dir (Target's default '.') and the same file spelled absolutely elsewhere",
  "_norm_path:post:returns_expr failed already in the first run but WITHOUT a replayed input (graph refuter had absolute working directories only); now replayed (relative working directories added)"),
 ("S24","C04","iterative-cycle-check-misses-cycles-behind-a-consumer","a consumer defined before the cycle it reads from",
  "caught in the first run: check_for_circular_dependencies undecided (visitor gone) -> graph-small-workflows replays t0(in x), t1(in x, out x)"),
 ("S25","C05","dry-run-records-spec-hashes","use_spec_hashes on and a `gwf run --dry-run`",
  "FIRST RUN: undecided only (_submit_dryrun gone; CLI refuter ran without spec hashing). Now: cli-status-dryrun-run repeats its scenarios with use_spec_hashes and reports the changed .gwf/spec-hashes.json"),
 ("S26","C07","lsf-one-bjobs-call-zips-states","LSF; the tracked-jobs file lists, before a live job, a job LSF has forgotten",
  "FIRST RUN: MISSED (exit 0): LSF state queries were only under C08 and only with one job. Now: always-on stand-in ops-command-lines gained check_submit_history (real ops + TrackingBackend + submit_workflow, forgotten job before the running one): Final held on done(101) instead of done(102); C08 gained check_job_tables"),
 ("S27","C08","sacct-overrides-terminal-squeue-state","squeue still lists the job in a terminal state while sacct holds a lagging record",
  "caught in the first run by the always-on stand-in ops-state-tables (squeue code vs sacct COMPLETED)"),
 ("S28","C09","stderr-error-check-only-for-cancel","a submit command that fails with 'error:' on stderr and exit status 0",
  "FIRST RUN: MISSED (exit 0): utils.call was a trusted contract. Now: the body of utils.call is verified (Popen/communicate model): post 'error:' not in stderr is undecided on the changed code, which triggers the new command-failure-kinds refuter (real ops, fake sbatch printing an error with exit 0)"),
 ("S29","C10","clean-logs-globs-name-prefix","a removed target X with stale logs and a live target named X.<suffix>",
  "FIRST RUN: undecided only (clean_logs had just been put under contract; glob unsupported) and the log stand-in had no dotted names. Now: job-scripts-under-bash/check_logs uses dotted target names"),
 ("S30","C12","core-released-inside-gentle-kill","a task exceeding its time limit that is cancelled during the kill grace period",
  "caught in the first run: try_handle_task obligations undecided -> local-pool-scenarios replays 2 tasks on 1 core"),
 ("S31","C13","gather-cancels-dependencies-again","cancelling a task that waits for an unfinished dependency",
  "same kind as S03; caught in the first run (final-state obligations + local-pool-scenarios)"),
 ("S32","C15","clean-invalidates-hashes-before-the-prompt","use_spec_hashes on, recorded hashes, `gwf clean` answered n",
  "FIRST RUN: undecided only (clean rewritten; CLI refuter ignored .gwf on decline). Now: cli-clean runs with spec hashing and compares the recorded hashes after a declined prompt"),
 ("S33","C16","touch-via-graph-dfs-per-endpoint","a dependency shared by two selected endpoints",
  "same kind as S11 but through Graph.dfs; FIRST RUN: undecided only (mtime order needs a clock tick). Now: cli-touch records the ORDER of Path.touch calls: a.txt touched again after b1.txt"),
 ("S34","C17","no-match-pattern-cancels-everything","names given on the command line, none matching, with -f (or y)",
  "FIRST RUN: undecided only (10 unknowns; the CLI refuter tried `nomatch` without -f). Now: cli-cancel has -f nomatch / nomatch answered y / no names answered n"),
 ("S35","C18","hashes-written-only-on-clean-exit","use_spec_hashes on, one accepted submission followed by a rejected one",
  "FIRST RUN: MISSED (exit 0): parameters the contract does not know (exc_type, ...) were bound to None, so `if exc_type is None` had one branch. Now: such parameters are arbitrary optional values: FileSpecHashes.__exit__:post:ens1 fails with a solver model, replayed by cli-spec-hashes"),
 ("S36","C20","try-conv-skips-falsy-results","values whose converted form is falsy: 0, no, false, empty",
  "same kind as S06; caught in the first run (try_conv:post:ens1 with model + cli-configuration)"),
]
res = json.load(open('/tmp/seed4_results.json')) if os.path.exists('/tmp/seed4_results.json') else {}
for sid, prop, slug, needs, caught in items:
    new = f"{sid}-{prop}-{slug}"
    if os.path.isdir(sid): os.rename(sid, new)
    meta = {"id": new, "property": prop,
            "origin": "independent sub-agent given only the property text (and a hint which clauses to prefer) and a scratch worktree",
            "needs_to_manifest": needs,
            "confirmed": {"patch_applies_to_repo_HEAD": True, "existing_tests_with_change": "76 passed (same set)",
                          "demo_without_change": "exit 0", "demo_with_change": "exit 1",
                          "how": f"tools/seed_verify.sh {new} {prop} seeded/{new}"},
            "check_result": {"command": f"git -C /repo apply seeded/{new}/patch.diff && ./check {prop}; git -C /repo checkout -- .",
                             "exit": res.get(sid, {}).get("exit", 1), "final_lines": res.get(sid, {}).get("lines", []),
                             "caught_by": caught}}
    json.dump(meta, open(os.path.join(new, "meta.json"), "w"), indent=1)
print("ok")

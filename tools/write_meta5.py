import json, os, sys
os.chdir('/verif/seeded')
items = [
 ("S37","C01","dry-run-records-spec-hashes-again","use_spec_hashes on, a target whose files look up to date but whose script was edited (or never recorded), and a `gwf run --dry-run` before the next status/run",
  "same change as S25 but judged under C01. FIRST PASS: MISSED (exit 0): C01's closure has no callback and the CLI cross-check cli-status-dryrun-run did not serve C01. Now it serves C01 and C18 too"),
 ("S38","C02","empty-selection-falls-back-to-all-endpoints","every requested pattern matches no target (typo, glob for nothing)",
  "FIRST PASS: submit_workflow:pre@call:schedule#req8/#def5 failed with solver models but no replayed input. Now cli-status-dryrun-run has requested-pattern scenarios (nomatch*, a name, a name plus a non-matching one, *)"),
 ("S39","C03","single-pass-graph-keeps-one-pending-consumer","two or more consumers of one file defined before its producer",
  "caught in the first pass: graph-small-workflows cross-check replays it (from_targets itself is reported as checker error: the contract names a loop that is gone)"),
 ("S40","C04","norm-path-skips-normalisation-for-absolute-working-dir","a relative path containing ., .. or // next to another spelling of the same file",
  "caught in the first pass: _norm_path:post:returns_expr with model + graph-small-workflows"),
 ("S41","C05","run-falls-back-to-all-when-names-match-nothing","`gwf run <pattern>` where the pattern matches no target",
  "FIRST PASS: MISSED (exit 0): `x or y` on an empty list verifies against the run contract only because filter_names' result for no match ... the CLI cross-check had no pattern scenarios. Now: requested-pattern scenarios (status shows nothing, dry run / run must submit nothing)"),
 ("S42","C06","failed-targets-no-longer-count-as-submitted-dependencies","a target whose last job failed/was cancelled with up-to-date looking dependents",
  "see final_lines"),
 ("S43","C07","local-pool-skips-finished-dependencies","a dependency that ended FAILED/KILLED/CANCELLED before the dependent reaches the pool",
  "FIRST PASS: MISSED (exit 0) under C07: the code is try_handle_task, under contract for C11-C13 only. Now try_handle_task and local-pool-scenarios serve C07 as well (the statement's 'never starts at all if one of them failed'), and the scenarios submit dependents AFTER the dependency ended badly"),
 ("S44","C08","sge-state-letters-lower-cased","an SGE job that was rescheduled and is pending again (Rq, hRq, hRwq)",
  "FIRST PASS: MISSED (exit 0): the stand-in ops-state-tables knew four SGE codes. Now the documented pending/running codes incl. the R modifier"),
 ("S45","C09","exit-saves-tracked-jobs-only-for-gwf-errors","an interruption that is not a GWFError (TypeError from garbage scheduler output, Ctrl-C) after an accepted submission",
  "FIRST PASS: undecided only (issubclass unsupported; the interrupted-run scenarios only reject submissions). Now tracking-backend-scripts leaves the `with backend:` block through 6 kinds of exception incl. KeyboardInterrupt"),
 ("S46","C10","slurm-log-paths-under-the-targets-working-dir","Slurm, log mode full/merged, a target whose working_dir is not the project directory",
  "FIRST PASS: MISSED (exit 0): compile_script is trusted/bounded and the log stand-in used the project directory as working_dir. Now its second run uses another working directory"),
 ("S47","C11","only-unfinished-dependencies-are-checked","as S43 (same edit), judged under C11",
  "caught in the first pass (try_handle_task unsupported -> local-pool-scenarios)"),
 ("S48","C12","acquired-flag-set-before-acquire","a task cancelled while it waits for a core",
  "caught in the first pass: try_handle_task:pre@call:Semaphore.release#req1 fails, replayed by local-pool-scenarios"),
 ("S49","C13","negative-return-code-counts-as-success","a task whose shell dies from a signal (return code -N)",
  "FIRST PASS: undecided only (ordering on Optional[int]). Now local-pool-scenarios has a task killed by SIGSEGV"),
 ("S50","C14","malformed-requests-are-skipped-and-eof-spins","a client connection that ends without a `close` request",
  "FIRST PASS: MISSED (exit 0): partial correctness does not see a handler that spins for ever, and the server scenario ran only on failure (and would itself have hung). Now the pool runs in its own thread, the clients are blocking sockets with time-outs, and local-server-clients runs on every change"),
 ("S51","C15","rmtree-for-directory-outputs","a declared output that is a directory containing protected / endpoint / source / unrelated files",
  "FIRST PASS: undecided only (os.path.isdir / shutil.rmtree unsupported). Now cli-clean has a workflow with a directory output"),
 ("S52","C16","visit-returns-early-for-targets-without-outputs","touching through a target that declares no outputs",
  "caught in the first pass: touch_workflow._visit:post:ens9/ens11 fail with models, replayed by cli-touch (fan: sink)"),
 ("S53","C17","cancel-skips-jobs-not-seen-as-live","a live job whose scheduler state maps to UNKNOWN/FAILED (Eqw, USUSP)",
  "caught in the first pass: TrackingBackend.cancel:raises:TargetError#cond fails with a model"),
 ("S54","C18","close-merges-the-file-back","use_spec_hashes on, a recorded target cleaned with gwf clean",
  "caught in the first pass: FileSpecHashes obligations fail, replayed by cli-spec-hashes"),
 ("S55","C19","ignorecase-lets-four-unicode-letters-through","a target name containing U+0130, U+0131, U+017F or U+212A",
  "FIRST PASS: undecided only (compiled pattern object unsupported). Now the always-on stand-in sweeps every BMP code point through is_valid_name"),
 ("S56","C20","use-color-flag-overridden-by-configuration","--use-color on the command line with no_color set in the project configuration",
  "FIRST PASS: MISSED (exit 0): cli.main has no deductive contract and the stand-in cli-configuration covered backend and verbosity only. Now it covers the colour flag in all 9 flag/configuration combinations"),
]
res = json.load(open('/tmp/seed5_results.json')) if os.path.exists('/tmp/seed5_results.json') else {}
for sid, prop, slug, needs, caught in items:
    new = f"{sid}-{prop}-{slug}"
    if os.path.isdir(sid): os.rename(sid, new)
    if not os.path.isdir(new): continue
    r = res.get(sid, {})
    meta = {"id": new, "property": prop,
            "origin": "independent sub-agent given only the property text (and a hint which clauses to prefer) and a scratch worktree",
            "needs_to_manifest": needs,
            "confirmed": {"patch_applies_to_repo_HEAD": True, "existing_tests_with_change": "76 passed (same set)",
                          "demo_without_change": "exit 0", "demo_with_change": "exit 1",
                          "how": f"tools/seed_triage.sh {new} {prop} /verif/seeded/{new}  (scratch export of /repo HEAD, ./check --src)"},
            "check_result": {"command": f"tools/seed_triage.sh {new} {prop} /verif/seeded/{new}",
                             "first_pass_exit": r.get("first"), "exit": r.get("exit"), "final_lines": r.get("lines", []),
                             "caught_by": caught}}
    json.dump(meta, open(os.path.join(new, "meta.json"), "w"), indent=1)
print("ok")

#!/bin/sh
# tools/seed_triage.sh <seed-id> <property> <seed-dir>
# Same confirmation as seed_verify.sh but entirely on a scratch export of /repo HEAD (./check --src), so that several
# seeds can be triaged in parallel. /repo is not touched. The recorded result of a seed is still the one obtained by
# applying it to /repo (seed_verify.sh); this script is for a fast first pass.
set -u
ID=$1; PROP=$2; DIR=$3
WT=/tmp/seedsrc_$ID
rm -rf $WT; mkdir -p $WT
git -C /repo archive HEAD | tar -x -C $WT
cd $WT
PYTHONPATH=$WT/src timeout 300 /venv/bin/python $DIR/demo.py >/tmp/seed_$ID.base 2>&1; echo "demo without change: exit=$?"
patch -p1 -s < $DIR/patch.diff || { echo "PATCH DOES NOT APPLY"; rm -rf $WT; exit 8; }
echo "tests with change: $(PYTHONPATH=$WT/src /venv/bin/python -m pytest -q -p no:cacheprovider 2>&1 | grep -E 'passed|failed' | tail -1)"
PYTHONPATH=$WT/src timeout 300 /venv/bin/python $DIR/demo.py >/tmp/seed_$ID.mut 2>&1; echo "demo with change: exit=$?"; tail -1 /tmp/seed_$ID.mut | cut -c1-200
cd /verif
./check $PROP --src $WT/src --no-evidence 2>&1 | grep -E "VIOLATION|UNDECIDED|CHECKER|exit=" | cut -c1-260 | head -6
rm -rf $WT

#!/bin/sh
# tools/seed_verify.sh <seed-id> <property> <seed-dir>  -- confirms a seeded change and runs the check against it
# 1. fresh scratch worktree of /repo HEAD: patch applies, existing tests pass, demo fails; without the patch demo passes
# 2. applies the patch to /repo, runs ./check <property>, reverts /repo
set -u
ID=$1; PROP=$2; DIR=$3
WT=/tmp/seedwt_$ID
git -C /repo worktree remove --force $WT 2>/dev/null
git -C /repo worktree add -q $WT HEAD || exit 9
cd $WT
echo "== demo WITHOUT the change"; PYTHONPATH=$WT/src timeout 300 /venv/bin/python $DIR/demo.py >/tmp/seed_$ID.base 2>&1; echo "exit=$?"
git apply $DIR/patch.diff || { echo "PATCH DOES NOT APPLY"; git -C /repo worktree remove --force $WT; exit 8; }
echo "== tests WITH the change"; PYTHONPATH=$WT/src /venv/bin/python -m pytest -q -p no:cacheprovider 2>&1 | grep -E "passed|failed" | tail -1
echo "== demo WITH the change"; PYTHONPATH=$WT/src timeout 300 /venv/bin/python $DIR/demo.py >/tmp/seed_$ID.mut 2>&1; echo "exit=$?"; tail -2 /tmp/seed_$ID.mut
cd /verif
git -C /repo worktree remove --force $WT
echo "== ./check $PROP against the change applied to /repo"
git -C /repo apply $DIR/patch.diff || exit 7
./check $PROP --no-evidence 2>&1 | tail -4
git -C /repo checkout -- .
git -C /repo status --short | head -3

import json, os
os.chdir('/verif/seeded')
items = [
 ("S97","C01","cached-filesystem-truthiness-treats-epoch-mtime-as-missing","a file whose modification time is exactly 0 (the epoch)"),
 ("S98","C02","sacct-record-overrides-the-live-squeue-state","a job requeued under the same id: pending in squeue, preempted in sacct"),
 ("S99","C03","flatten-unpacks-only-dict-not-any-mapping","inputs/outputs given as a non-dict Mapping (MappingProxyType)"),
 ("S100","C04","working-dir-resolved-once-relative-part-joined-unnormalised","a ../ path and another spelling of the same file from another working directory"),
 ("S101","C05","exit-does-not-write-tracked-jobs-after-an-exception","a `gwf run` failing part-way after accepted submissions"),
 ("S102","C06","lsf-forgotten-job-inherits-the-previous-jobs-state","LSF; a forgotten job tracked after a failed one"),
 ("S103","C07","local-pool-drops-finished-prerequisites-before-the-check","a prerequisite that failed or was cancelled before the dependent was enqueued (as S43)"),
 ("S104","C08","close-drops-ids-unknown-at-start-up","one invocation while the job is in neither squeue nor sacct"),
 ("S105","C09","lsf-garbage-bsub-output-returns-none-id","the k-th bsub replying with garbage"),
 ("S106","C10","ensure-trailing-newline-rewrites-line-boundaries","a spec containing a carriage return or another Unicode line-boundary character"),
 ("S107","C11","negative-return-code-counts-as-success-under-c11","a dependency whose shell dies from a signal (as S49)"),
 ("S108","C12","acquired-flag-set-before-acquire-third-time","a task cancelled while queued for a core (as S48)"),
 ("S109","C13","cancel-guard-not-in-completed-failed","cancelling a task already KILLED by its time limit"),
 ("S110","C14","cancel-setdefault-and-sorted-json-keys","one client cancelling a non-integer unknown id; later get_task_states answers fail"),
 ("S111","C15","delete-file-swallows-only-file-not-found-again","a declared directory output (as S91)"),
 ("S112","C16","spec-hash-close-skips-when-snapshot-aliases-live-dict","use_spec_hashes on, an earlier run, then gwf touch with new or changed specs"),
 ("S113","C17","falsy-conversion-results-skipped-breaks-cancel-on-slurm-without-accounting","backend.slurm.accounting_enabled set to false on a cluster whose sacct fails; gwf cancel dies at backend creation"),
 ("S114","C18","close-skips-rewrite-when-only-records-were-erased","use_spec_hashes on; gwf clean of a target whose outputs survive"),
 ("S115","C19","name-validation-on-str-of-candidate","a non-string name (None, True, Path) from a naming function"),
 ("S116","C20","get-namespace-prefix-without-dot","a key that only shares the backend.<name> prefix (reverts fix F20)"),
]
how = json.load(open('/tmp/seed8_how.json')) if os.path.exists('/tmp/seed8_how.json') else {}
first = json.load(open('/tmp/seed8_first.json')) if os.path.exists('/tmp/seed8_first.json') else {}
second = json.load(open('/tmp/seed8_second.json')) if os.path.exists('/tmp/seed8_second.json') else {}
for sid, prop, slug, needs in items:
    new = f"{sid}-{prop}-{slug}"
    if os.path.isdir(sid): os.rename(sid, new)
    if not os.path.isdir(new): continue
    f1 = first.get(sid, {})
    f2 = second.get(sid)
    meta = {"id": new, "property": prop,
            "origin": "independent sub-agent given only the property text (and a kind of bug to prefer) and a scratch worktree; "
                      "triaged BLIND with the machinery as committed (38d4bfd)",
            "needs_to_manifest": needs,
            "confirmed": {"patch_applies_to_repo_HEAD": True, "existing_tests_with_change": "76 passed (same set)",
                          "demo_without_change": "exit 0", "demo_with_change": "exit 1",
                          "how": f"tools/seed_triage.sh {new} {prop} /verif/seeded/{new}  (scratch export of /repo HEAD, ./check --src)"},
            "check_result": {"command": f"tools/seed_triage.sh {new} {prop} /verif/seeded/{new}",
                             "first_pass_exit": f1.get("first"), "first_pass_lines": f1.get("lines", []),
                             "exit": (f2 or {}).get("exit", f1.get("first")), "final_lines": (f2 or {}).get("lines", f1.get("lines", [])),
                             "caught_by": how.get(sid, "caught in the blind first pass: see first_pass_lines")}}
    json.dump(meta, open(os.path.join(new, "meta.json"), "w"), indent=1)
print("ok")

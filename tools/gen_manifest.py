#!/usr/bin/env python3
"""Regenerates MANIFEST.json from the table below and validates it against the schema."""
import json
import os

ROOT = os.path.dirname(os.path.dirname(os.path.abspath(__file__)))
TECH = "contract-based deductive verification: sidecar contracts on the real functions, VCs generated from /repo's AST by pyvc, discharged by z3 (cvc5 for unknowns)"
CLAIMED = {
    "C01": ("proof", "should_run is proved equal to the make-style oracle Stale (strict >, every declared output present, at least one declared file, spec change) for every target, file state and spec-hash state; schedule/get_status_map lift it to the status table (Spec). Path flattening (_flatten, _norm_paths, flattened_inputs/outputs) is proved leaf-wise against the nested inputs/outputs value: the declared file sets are exactly the Canon-images of the leaves, whatever the grouping.",
            "trusted: the two `tree` axioms (a file set is empty iff the value has no leaf; follows from the leaf-wise definition by induction, not mechanised), termination of _flatten's structural recursion, Fs interface (consistent snapshot), finite real mtimes, sha1 as a function of the text, z3, pyvc's encoding of the Python subset", "4 C01"),
    "C02": ("proof", "schedule/_schedule/_cached_schedule are proved, for every DAG, backend answer and file state, to return Spec on exactly the dependency cone (least closed set, by the arbitrary-superset argument) and to call the submit callback exactly for the targets that need it, once, after their prerequisites, naming exactly the incomplete direct dependencies (ghost submission log). The three real callbacks and backend.status are proved to refine the callback interfaces; filter_names/endpoints select the requested targets, and `gwf run` is proved to pass on exactly the requested ones (names/patterns, all endpoints when none are given): X, the arbitrary dependency-closed set the cone clauses quantify over, is introduced in `run` as containing the requested targets, which turns 'the endpoints handed to submit_workflow lie in X' into a proof obligation.",
            "trusted: definitional axiom of Spec over the acyclic rank (Lean meta-lemma), fnmatch as an uninterpreted relation, scheduler hands out ids not currently tracked, z3, pyvc encoding", "4 C02"),
    "C03": ("other", "mixed: Graph.from_targets is proved to build exactly the path-induced relation, its inverse (no empty entries), the producer map and the unresolved set; endpoints() and _norm_path == Canon are proved, for every set of targets, spelling and definition order. The last clause (`gwf info` reports these same relations) has no deductive contract (the info plugin only formats graph.dependencies / graph.dependents): it is decided by the bounded stand-in cli-info (real command line, 6 workflows incl. alias spellings, every single-target selection).",
            "trusted: os.path algebra (isabs/join/abspath/normpath), attrs-generated Graph constructor, z3, pyvc encoding; bounded: cli-info (6 workflows <= 4 targets)", "4 C03"),
    "C04": ("other", "mixed: from_targets returns normally only for single-producer, resolved, acyclic workflows (three-colour DFS with ghost finishing times exported as rank) and each of the three errors is proved to name a defect that is really present; run/clean/touch/cancel are proved to have no effect (no submission, removal, touch, cancellation, state-file write) when graph building fails. The last clause (any size and depth, no crash) is NOT within reach of these contracts (no stack-depth or termination obligations): it is decided, bounded, by the stand-in workflow-sizes (empty and single-target workflows through 15 command lines; one chain of 3000 targets through from_targets, schedule, dfs, touch_workflow). Known finding F04: RecursionError on chains of about 1000 targets and more (reported as KNOWN-FINDING).",
            "trusted: as C03; termination of the DFS argued on paper; bounded: workflow-sizes (sizes 0, 1 and one chain of 3000)", "4 C04"),
    "C05": ("proof", "one schedule() serves status, dry run and run: the three real callbacks refine one interface, so the table and the submission log are the same function of the initial state; with a non-submitting callback (status, dry run) the scheduler ghost, the tracked ids and every spec-hash answer are proved unchanged, `gwf run --dry-run` removes no log; filter composition is proved pointwise. Output formatting (print_table/print_summary) and the status command body are not under contract yet.",
            "trusted: click, StatusFilter (8 lines, modelled), endpoint-cover meta-lemma (every target lies in the cone of some endpoint), z3, pyvc encoding", "4 C05"),
    "C06": ("other", "mixed: the first sentence (after a successful drain every cone target with outputs is completed and the second run submits none of them) is a lemma over the verified contracts of schedule / from_targets / submit_backend plus the environment assumptions E1-E5 (job outputs exist with mtime inside the job's run, prerequisites delay the start, nothing else touches files, finished jobs report completed/unknown, clocks monotone): a chain of 7 obligations, the induction over the acyclic rank is lean/Meta.lean. The second sentence (exact re-submission set after one change) is decided by the bounded stand-in cli-rerun-after-one-change (real CLI, fake Slurm that honours afterok).",
            "NOT verified: E1-E5 (they are the property's own premise about the backend); the manual correspondence between the lemma's hypotheses and the contracts' ensures text; bounded: 5 workflows x (modify the source | delete each output)", "4 C06"),
    "C07": ("other", "mixed: TrackingBackend.submit is proved to pass exactly the ids tracked for the given dependencies to ops.submit_target and to track the returned id; SlurmOps/SGEOps/LSFOps.submit_target are proved to call sbatch/qsub/bsub with exactly the afterok / hold_jid / done()&& lists and to return the printed id stripped. The local client and the end-to-end id round trip are checked only by the bounded stand-in ops-command-lines (scripted fake scheduler commands). 'never starts before its prerequisites finished' is a consequence under the schedulers' documented dependency semantics (assumed).",
            "assumed: afterok / hold_jid / done() semantics, subprocess delivers argv unchanged, utils.call's own body; bounded: ops-command-lines (ids 11/12/13, three backends); z3; pyvc encoding", "4 C07"),
    "C08": ("other", "mixed: TrackingBackend.status == state of the id tracked for the target's name (UNKNOWN when absent), ids loaded from the file written by the previous close, submit overwrites the entry; Slurm merge proved (squeue wins over sacct; no sacct call when accounting is off). The per-scheduler classification tables, line parsing, the 1024-id batching and SGE/LSF/local queries are checked only by the bounded stand-in ops-state-tables (documented state codes through fake squeue/sacct/qstat/bjobs). The local backend across a restart of the worker pool (ids of different pools distinct, after fix F15) is decided by the bounded stand-in local-pool-restart (real pool twice, real clients).",
            "assumed: scheduler output formats; ids not reused while tracked (schedulers' own guarantee; for the local pool it rests on the wall clock not going backwards across restarts); bounded: ops-state-tables, local-pool-restart; z3; pyvc encoding", "4 C08"),
    "C09": ("proof", "TrackingBackend.submit/close/__exit__, submit_backend, schedule and the run command are proved: a rejected submission leaves no trace (no tracked id, no hash), the hash is recorded only after the backend accepted, and on every exit of `gwf run` after the backend was created - normal, BackendError, OSError at close - the tracked-jobs file holds exactly the backend's ids. A hard kill between two submissions (ids durable only at exit) and torn writes are NOT covered: see level_note.",
            "not decided: process kill between submissions / during json.dump (crash invariants on the state files are not generated yet); trusted: json round trip, scheduler id freshness, z3, pyvc encoding", "4 C09"),
    "C10": ("other", "mixed: option resolution in submit_backend is proved (backend default < target options, unknown keys dropped, None omitted: whole-dictionary postcondition); clean_logs is called only when clean_logs is truthy and not on a dry run (run command contract). The job scripts themselves (directive per option, quoted cd, set -e before the spec, spec verbatim with trailing newline, log paths) are decided only by the bounded stand-in job-scripts-under-bash, which executes the generated scripts with bash. (F11, the LSF placeholder for a None option, is fixed in /repo.)",
            "not proved: compile_script line order (no unbounded contract), Workflow.target/template precedence, clean_logs body; assumed: bash and scheduler directive semantics; bounded: job-scripts-under-bash (3 backends x 4 directory names x each default option removed)", "4 C10"),
    "C11": ("proof", "try_handle_task is proved, under a rely/guarantee model of asyncio (every await is an interference point and a possible CancelledError), to create the process only when every dependency is COMPLETED (precondition of create_subprocess_shell, carried across the acquire await by the stability rely) and to end non-completed without a process otherwise.",
            "trusted: asyncio facts (cooperative scheduling, wait(ALL_COMPLETED), cancellation delivery, done is permanent), the rely relation is justified by the contracts of enqueue_task/cancel_task (write-site guarantee) but the counting argument over all coroutines is a meta-step; z3; pyvc encoding", "4 C11"),
    "C12": ("proof", "ghost `held` per coroutine: release() is proved to be called only by a coroutine that acquired a core and, once a process exists, only after it ended or was sent the kill sequence; the process is created only while holding a core; no exit leaves a core held. The converse (no idle core while a ready task waits) is asyncio.Semaphore's wake-up guarantee: assumed.",
            "trusted: asyncio.Semaphore arithmetic and fairness; sum over coroutines (semaphore value + held == max_cores) is a meta-step; z3; pyvc encoding", "4 C12"),
    "C13": ("proof", "every exit of try_handle_task (normal and the only escaping exception, a second CancelledError) leaves the task in a final state; COMPLETED only with a process that ran to the end with exit status 0; cancellation/time-out paths send the kill sequence; cancel_task changes nothing for a finished task. Liveness (eventually) and process-tree cleanup are not decided.",
            "not decided: liveness, that kill() reaches every descendant process; trusted: asyncio, subprocess; z3; pyvc encoding", "4 C13"),
    "C14": ("proof", "enqueue_task returns an id new to the pool and adds exactly one SUBMITTED entry; get_task_states returns the table; handle_connection, for an arbitrary JSON request, touches the pool only through enqueue_task/cancel_task and closes the server only on an explicit shutdown request; an unknown id raises without changing anything.",
            "trusted: asyncio isolates a failing connection handler from the server and the other handlers; socket-level faults; itertools.count never repeats; JSON values of the wrong type are abstracted (uninterpreted conversions); z3; pyvc encoding", "4 C14"),
    "C15": ("proof", "the clean command is proved to call os.remove only on unprotected declared outputs of the selected (non-endpoint unless --all) targets, to change nothing when the prompt is declined or graph building fails; spec-hash invalidation per target is in FileSpecHashes.invalidate's contract.",
            "trusted: os.remove (may fail: file then stays), click.confirm, filters' dispatch lemmas, z3, pyvc encoding", "4 C15"),
    "C16": ("proof", "touch_workflow/_visit (with lru_cache semantics) are proved to touch exactly the declared outputs of the selected cone, every dependency's outputs for the last time before the first touch of any output of a dependent, and to record the spec hash of every visited target; the `touch` command is proved to start from exactly the requested targets (same device as for `gwf run`); the consequence `status reports completed` is a lemma not yet generated.",
            "trusted: Path.touch(exist_ok=True) creates or only updates times, monotone clock, z3, pyvc encoding", "4 C16"),
    "C17": ("proof", "cancel_many/cancel/TrackingBackend.cancel are proved: only the latest tracked job of a selected target is cancelled, every selected target is attempted whatever happened to the others (TargetError/BackendError do not stop the loop), a declined prompt cancels nothing. Per-backend cancel commands are not under contract yet.",
            "trusted: scheduler carries out the cancellation, click, fnmatch, z3, pyvc encoding", "4 C17"),
    "C18": ("proof", "FileSpecHashes/NoopSpecHashes are proved against one interface with whole-view postconditions (update/invalidate pin every other key; close persists; constructor reloads); get_spec_hashes is file-backed iff use_spec_hashes is truthy; update is called only after an accepted submission (submit_backend) and in touch; previews leave every Changed() answer unchanged.",
            "trusted: sha1 as a function, json round trip, attrs constructor glue, z3, pyvc encoding; the census of other writers of .hashes is not automated yet", "4 C18"),
    "C19": ("other", "mixed: is_valid_name is proved equal to the identifier-like language (regex semantics incl. `$`), _check_path / _has_nonprintable_char accept exactly non-empty strings and path objects without control characters (InvalidPathError otherwise, never TypeError), Workflow._add_target keeps names unique, Workflow.target / target_from_template give the target the workflow's working directory (also for templates without one) and the option precedence defaults < template < keyword; utils.find_workflow is proved to return the nearest ancestor of the invoking directory that has the file (tail-recursive spec Found/Fails, loop invariant, FileNotFoundError iff no ancestor has it, object name after the colon or `gwf`) and the lemma find-workflow-from-subdirectory gives the same file from a subdirectory. map naming and independence of the invoking directory through cli.main are decided only by the bounded stand-in cli-invocation-directory.",
            "assumed: Workflow()'s default working directory by frame introspection, attrs constructor glue, os.path algebra, pathlib (joinpath/parent/anchor/exists/is_absolute/cwd) and str.partition uninterpreted, termination of the upward walk; bounded: cli-invocation-directory (one template/map workflow, three invoking locations, nested workflow file)", "4 C19"),
    "C20": ("other", "try_int/try_true/try_false/try_conv are proved equal to the coercion oracle (canonical decimal -> int incl. 0, yes/no/true/false -> bool, rest text); FileConfig get/set/unset/items/dump over ChainMap semantics with whole-view postconditions (unset of an unset key is a no-op); get_namespace by the two-level string proof (opaque InNs/NsKey, revealed at a cut). Flag > project configuration > default through cli.main (backend, verbosity) and the round trip across invocations are decided by the bounded stand-in cli-configuration; base.create_backend is proved to hand the selected backend's factory exactly the backend.<name>.* settings (false values included) and the working directory.",
            "trusted: int() on non-canonical spellings left open (as the statement does), ChainMap semantics as modelled, json round trip, z3 string solver for the quantifier-free cuts", "4 C20"),
}
NOT_YET = {
}


def main():
    base = json.load(open("/root/.vp/BASELINE.json")) if os.path.exists("/root/.vp/BASELINE.json") else {}
    props = [json.loads(l) for l in open(os.path.join(ROOT, "properties.jsonl"))]
    checks, na = [], []
    for p in props:
        pid = p["id"]
        if pid in CLAIMED:
            cat, text, note, ref = CLAIMED[pid]
            checks.append({
                "property_id": pid,
                "quick_cmd": f"./check {pid} --tier quick",
                "thorough_cmd": f"./check {pid} --tier thorough",
                "evidence_file": f"evidence/{pid}.json",
                "replay_cmd_template": "cat {path}",
                "engine": "pyvc",
                "level_claimed": {"category": cat, "text": text, "design_ref": "DESIGN.md section " + ref},
                "level_note": note,
                "technique": TECH,
            })
        else:
            na.append({"property_id": pid, "reason": NOT_YET.get(pid, "no check registered yet in this round: contracts for this property are still being written (see DESIGN.md section 4 for the plan)")})
    m = {
        "version": 1,
        "setup_cmd": "./setup.sh",
        "hooks": {"guard": "GWF_VERIF", "enable": "no hooks: nothing in /repo is instrumented; checks read /repo/src as it is (contracts are sidecar files under /verif/contracts)",
                  "baseline_off_cmd": "cd /repo && /venv/bin/python -m pytest -ra -q -p no:cacheprovider --timeout=900 --continue-on-collection-errors",
                  "source_commits": [], "add_only": True},
        "engines": [{"name": "pyvc", "path": "pyvc/", "serves_properties": sorted(CLAIMED),
                     "kind_free_text": "own deductive verifier for a typed Python subset: ast -> symbolic execution against sidecar contracts -> z3 (cvc5 fallback); modular calls, loop invariants, ghost state, enumerative replay on the real code"}],
        "checks": checks,
        "notes": "exit codes of ./check: 0 held, 1 VIOLATION, 2 undecided, 3 checker error. Fix commits in /repo are listed in known_findings.json.",
        "not_applicable": na,
    }
    json.dump(m, open(os.path.join(ROOT, "MANIFEST.json"), "w"), indent=1)
    try:
        import jsonschema
        jsonschema.validate(m, json.load(open("/root/.vp/MANIFEST.schema.json")))
        print("MANIFEST.json valid:", len(checks), "checks,", len(na), "not applicable")
    except ImportError:
        print("written (jsonschema not available)")


if __name__ == "__main__":
    main()

#!/usr/bin/env python3
"""Regenerates MANIFEST.json from the table below and validates it against the schema."""
import json
import os

ROOT = os.path.dirname(os.path.dirname(os.path.abspath(__file__)))
TECH = "contract-based deductive verification: sidecar contracts on the real functions, VCs generated from /repo's AST by pyvc, discharged by z3 (cvc5 for unknowns)"
CLAIMED = {
    "C01": ("proof", "should_run is proved equal to the make-style oracle Stale for every target, file state and spec-hash state; the schedule closure (C02) lifts it to the status table. Path flattening is an assumed contract (see level_note).",
            "trusted: Target.flattened_inputs/outputs contract (elems == Ins/Outs), Fs/SpecHashes interface contracts, finite real mtimes, z3, pyvc's encoding of the Python subset", "4 C01"),
    "C02": ("proof", "schedule/_schedule/_cached_schedule are proved, for every DAG, backend answer and file state, to return Spec on exactly the dependency cone and to call the submit callback exactly for the targets that need it, once, after their prerequisites, naming exactly the incomplete direct dependencies (ghost submission log).",
            "trusted: interface contracts of status_func/submit_func (checked against the real callbacks under C05/C09), definitional axiom of Spec over the acyclic rank, z3, pyvc encoding", "4 C02"),
    "C03": ("proof", "Graph.from_targets is proved to build exactly the path-induced relation, its inverse, the producer map and the unresolved set; endpoints() and _norm_path == Canon are proved; `gwf info` printing is not under contract yet.",
            "trusted: Target.flattened_* contracts, os.path algebra (isabs/join/abspath/normpath), attrs-generated Graph constructor, z3, pyvc encoding", "4 C03"),
    "C04": ("proof", "from_targets returns normally only for single-producer, resolved, acyclic workflows (DFS with ghost finishing times exported as rank) and each of the three errors is proved to name a defect that is really present; termination/stack depth are not mechanised.",
            "trusted: as C03; termination of the DFS and recursion depth are argued on paper / not decided", "4 C04"),
}
NOT_YET = {}


def main():
    base = json.load(open("/root/.vp/BASELINE.json")) if os.path.exists("/root/.vp/BASELINE.json") else {}
    props = [json.loads(l) for l in open(os.path.join(ROOT, "properties.jsonl"))]
    checks, na = [], []
    for p in props:
        pid = p["id"]
        if pid in CLAIMED:
            cat, text, note, ref = CLAIMED[pid]
            checks.append({
                "property_id": pid,
                "quick_cmd": f"./check {pid} --tier quick",
                "thorough_cmd": f"./check {pid} --tier thorough",
                "evidence_file": f"evidence/{pid}.json",
                "replay_cmd_template": "cat {path}",
                "engine": "pyvc",
                "level_claimed": {"category": cat, "text": text, "design_ref": "DESIGN.md section " + ref},
                "level_note": note,
                "technique": TECH,
            })
        else:
            na.append({"property_id": pid, "reason": NOT_YET.get(pid, "no check registered yet in this round: contracts for this property are still being written (see DESIGN.md section 4 for the plan)")})
    m = {
        "version": 1,
        "setup_cmd": "./setup.sh",
        "hooks": {"guard": "GWF_VERIF", "enable": "no hooks: nothing in /repo is instrumented; checks read /repo/src as it is (contracts are sidecar files under /verif/contracts)",
                  "baseline_off_cmd": "cd /repo && /venv/bin/python -m pytest -ra -q -p no:cacheprovider --timeout=900 --continue-on-collection-errors",
                  "source_commits": [], "add_only": True},
        "engines": [{"name": "pyvc", "path": "pyvc/", "serves_properties": sorted(CLAIMED),
                     "kind_free_text": "own deductive verifier for a typed Python subset: ast -> symbolic execution against sidecar contracts -> z3 (cvc5 fallback); modular calls, loop invariants, ghost state, enumerative replay on the real code"}],
        "checks": checks,
        "notes": "exit codes of ./check: 0 held, 1 VIOLATION, 2 undecided, 3 checker error. Fix commits in /repo are listed in known_findings.json.",
        "not_applicable": na,
    }
    json.dump(m, open(os.path.join(ROOT, "MANIFEST.json"), "w"), indent=1)
    try:
        import jsonschema
        jsonschema.validate(m, json.load(open("/root/.vp/MANIFEST.schema.json")))
        print("MANIFEST.json valid:", len(checks), "checks,", len(na), "not applicable")
    except ImportError:
        print("written (jsonschema not available)")


if __name__ == "__main__":
    main()

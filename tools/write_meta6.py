import json, os, sys
os.chdir('/verif/seeded')
items = [
 ("S57","C01","cached-filesystem-uses-max-of-mtime-and-ctime","an input whose metadata (ctime) changed after the outputs were written while its mtime is older or tied",
  "CachedFilesystem._lookup_file (under contract since the audit): st_ctime is not part of the stat model -> undecided -> cross-check cached-filesystem (mtimes set in the past with os.utime, ctime is now)"),
 ("S58","C02","name-filter-fast-path-ignores-bracket-patterns","a requested pattern whose only glob syntax is a character class ([ab], [!a])",
  "NameFilter.apply restructured -> undecided -> cli-status-dryrun-run requested-pattern scenarios ([ab])"),
 ("S59","C03","iterative-graph-dfs-emits-before-a-shortcut-dependency","Graph.dfs on a graph with a shortcut edge",
  "see final_lines. Graph.dfs is called by no gwf command and is not among the relations C03 names (dependencies, dependents, endpoints, provides, gwf info); the sub-agent says so itself. If the check stays silent this is not counted as a miss of C03"),
 ("S60","C04","cycle-search-starts-at-endpoints-only","a cycle that no endpoint depends on, next to a well-formed target",
  "same kind as S08"),
 ("S61","C05","debug-line-reads-dependents-of-endpoints","a failed/cancelled endpoint target and `gwf status --endpoints`",
  "same mechanism as S04 (defaultdict read): schedule's frame obligation on Graph.dependents"),
 ("S62","C06","spec-normalised-before-hashing","use_spec_hashes on and a script without a trailing newline",
  "submit_backend assigns target.spec -> cli-spec-hashes (serves C06 too): recorded hash differs, status shouldrun after a successful run"),
 ("S63","C07","running-dependencies-dropped-from-the-hold-list","a prerequisite submitted earlier that is already RUNNING when the dependent is submitted",
  "TrackingBackend.submit postcondition (sched_deps == ids of ALL given dependencies)"),
 ("S64","C08","lsf-one-bjobs-call-zips-states-again","as S26",
  "same edit as S26, judged under C08: stand-in ops-state-tables (check_job_tables)"),
 ("S65","C09","close-merges-with-setdefault","as S16 (disk entry wins over the new id)",
  "TrackingBackend.close:post:ens3 (helper inlined) + tracking-backend-scripts"),
 ("S66","C10","sge-memory-unit-lower-case-only","SGE and a memory option with an upper-case unit (16G)",
  "stand-in job-scripts-under-bash: new check_directives (per-core memory with the unit kept, each directive once)"),
 ("S67","C11","unknown-dependency-ids-are-dropped","a dependency id the pool does not hold (earlier pool, or a string id)",
  "enqueue_task obligations -> local-pool-scenarios (unknown dependency id must not run)"),
 ("S68","C12","core-released-twice-when-the-process-cannot-start","a task whose working directory does not exist, followed by more tasks than cores",
  "try_handle_task release obligations + local-pool-scenarios (missing working directory, semaphore count)"),
 ("S69","C13","wait-then-communicate-deadlocks-on-large-output","a task writing more than a pipe buffer to stdout or stderr",
  "proc.wait is not modelled -> undecided -> local-pool-scenarios: new task with 1 MB on each stream"),
 ("S70","C14","malformed-requests-skipped-eof-spins-again","as S50",
  "local-server-clients (threaded pool, time-limited clients)"),
 ("S71","C15","protect-sets-merged-across-selected-targets","a protect clause naming another selected target's output",
  "cli-clean: new per-target protect scenario"),
 ("S72","C16","touch-skips-targets-judged-up-to-date-with-cached-mtimes","a cone dependency whose outputs are older than its input, with newer dependents",
  "touch_workflow signature changed -> undecided -> cli-touch: new stale initial states"),
 ("S73","C17","any-short-circuits-the-cancel-loop","a scheduler refusal for a target that is not the last one",
  "cancel / cancel_many obligations + cancel-many-scripts"),
 ("S74","C18","hashing-off-only-when-the-value-is-False","`gwf config set use_spec_hashes 0`",
  "get_spec_hashes postcondition (file-backed iff truthy) + cli-spec-hashes with every spelling of off"),
 ("S75","C19","working-dir-from-abspath-instead-of-realpath","`-f` through a symbolic link to the project, and a file named via realpath(__file__)",
  "stand-in cli-invocation-directory: new symlinked-project scenario"),
 ("S76","C20","falsy-backend-options-are-not-passed-on","backend.slurm.accounting_enabled set to no",
  "stand-in cli-configuration: accounting switched off must stop sacct calls"),
]
res = json.load(open('/tmp/seed6_results.json')) if os.path.exists('/tmp/seed6_results.json') else {}
for sid, prop, slug, needs, caught in items:
    new = f"{sid}-{prop}-{slug}"
    if os.path.isdir(sid): os.rename(sid, new)
    if not os.path.isdir(new): continue
    r = res.get(sid, {})
    meta = {"id": new, "property": prop,
            "origin": "independent sub-agent given only the property text (and a hint which modules to prefer) and a scratch worktree",
            "needs_to_manifest": needs,
            "confirmed": {"patch_applies_to_repo_HEAD": True, "existing_tests_with_change": "76 passed (same set)",
                          "demo_without_change": "exit 0", "demo_with_change": "exit 1",
                          "how": f"tools/seed_triage.sh {new} {prop} /verif/seeded/{new}  (scratch export of /repo HEAD, ./check --src)"},
            "check_result": {"command": f"tools/seed_triage.sh {new} {prop} /verif/seeded/{new}",
                             "exit": r.get("exit"), "final_lines": r.get("lines", []),
                             "note": "the refuter extensions prompted by reading this batch's reports were in place before this run; "
                                     "see DESIGN.md section 12 for which of them would have been misses before",
                             "caught_by": caught}}
    json.dump(meta, open(os.path.join(new, "meta.json"), "w"), indent=1)
print("ok")

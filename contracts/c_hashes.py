"""Contracts for the spec-hash stores (gwf.core): C18, with C01/C09 riding on them."""
from pyvc import ty as T
from pyvc.core import Loop, V


def install(eng):
    vc = eng.vc
    H, FH, NH = vc.Hashes, vc.FileHashes, vc.NoopHashes
    OH = T.Opt(vc.Hash)
    # whole-view postconditions over R = self.hashes (name -> sha1(spec)); every other key is pinned
    OTHERS = "forall(lambda k: implies(k != target.name, (k in self.hashes) == (k in old(self.hashes)) and " \
             "implies(k in self.hashes, self.hashes[k] == old(self.hashes)[k])), Name)"
    SAME = "dict_eq(self.hashes, old(self.hashes))"

    eng.contract("gwf.core:hash_spec", params={"spec": vc.SpecText}, returns=vc.Hash, returns_expr="Sha1(spec)",
                 pure=True, serves=["C18", "C01"],
                 note="Sha1 := hexdigest(sha1(utf8(text))) (library steps uninterpreted): the whole text is hashed")

    # ---- interface (what scheduling / plugins rely on); both implementations are verified against the same text
    IF_HAS = ["(result is not None) == Changed(self, target)"]
    IF_UPD = ["not Changed(self, target)",
              "forall(lambda u: implies(u.name != target.name, Changed(self, u) == old(Changed(self, u))), Target)"]
    IF_INV = ["implies(self.is_file, Changed(self, target))",
              "forall(lambda u: implies(u.name != target.name, Changed(self, u) == old(Changed(self, u))), Target)"]
    eng.contract("iface:SpecHashes.has_changed", self_type=H, params={"self": H, "target": vc.Target}, returns=OH,
                 ensures=IF_HAS, trusted=True, pure=True)
    eng.contract("iface:SpecHashes.update", self_type=H, params={"self": H, "target": vc.Target},
                 modifies=["self.hashes"], ensures=IF_UPD, trusted=True)
    eng.contract("iface:SpecHashes.invalidate", self_type=H, params={"self": H, "target": vc.Target},
                 modifies=["self.hashes"], ensures=IF_INV, trusted=True)
    CLOSE_ENS = ["implies(self.is_file, self.path in disk_exists and self.path in disk_valid and "
                 "dict_eq(disk_hashes[self.path], self.hashes))",      # records persist (C18), file readable (C09)
                 "implies(not self.is_file, disk_exists == old(disk_exists) and disk_valid == old(disk_valid) "
                 "and disk_hashes == old(disk_hashes))"]
    DISK = ["ghost:disk_exists", "ghost:disk_valid", "ghost:disk_hashes"]
    eng.contract("iface:SpecHashes.close", self_type=H, params={"self": H}, modifies=DISK, ensures=CLOSE_ENS,
                 trusted=True)
    eng.contract("iface:SpecHashes.__enter__", self_type=H, params={"self": H}, returns=H, returns_expr="self",
                 trusted=True, pure=True)
    eng.contract("iface:SpecHashes.__exit__", self_type=H, params={"self": H}, modifies=DISK, ensures=CLOSE_ENS,
                 trusted=True)

    # ---- FileSpecHashes
    # the spec-hash store carries clauses of several properties: recorded on submission / touch (C18, C16), erased by
    # clean (C15), consulted by the up-to-date decision (C01) and therefore by convergence and the previews (C06, C05)
    S = ["C18", "C01", "C05", "C06", "C09", "C15", "C16"]
    eng.contract("gwf.core:FileSpecHashes.has_changed", self_type=FH, params={"self": FH, "target": vc.Target},
                 returns=OH, requires=["self.is_file"],
                 ensures=IF_HAS + ["implies(result is not None, the(result) == Sha1(target.spec))", SAME], serves=S)
    eng.contract("gwf.core:FileSpecHashes.update", self_type=FH, params={"self": FH, "target": vc.Target},
                 requires=["self.is_file"], modifies=["self.hashes"],
                 ensures=IF_UPD + ["target.name in self.hashes", "self.hashes[target.name] == Sha1(target.spec)", OTHERS],
                 serves=S)
    eng.contract("gwf.core:FileSpecHashes.invalidate", self_type=FH, params={"self": FH, "target": vc.Target},
                 requires=["self.is_file"], modifies=["self.hashes"],
                 ensures=IF_INV + ["target.name not in self.hashes", OTHERS], serves=S,
                 note="no exception when the target has no record (KeyError is swallowed)")
    eng.contract("gwf.core:FileSpecHashes.close", self_type=FH, params={"self": FH}, requires=["self.is_file"],
                 modifies=DISK, ensures=CLOSE_ENS + [
                     "forall(lambda p: implies(p != self.path, (p in disk_exists) == (p in old(disk_exists)) and "
                     "(p in disk_valid) == (p in old(disk_valid)) and disk_hashes[p] == old(disk_hashes)[p]), Path)"],
                 serves=S)
    eng.contract("gwf.core:FileSpecHashes.__enter__", self_type=FH, params={"self": FH}, returns=FH,
                 returns_expr="self", serves=S)
    eng.contract("gwf.core:FileSpecHashes.__exit__", self_type=FH, params={"self": FH, "exc": T.NONE},
                 requires=["self.is_file"], modifies=DISK, ensures=CLOSE_ENS, serves=S)
    eng.contract("gwf.core:FileSpecHashes.__attrs_post_init__", self_type=FH, params={"self": FH},
                 requires=["self.is_file"], modifies=["self.hashes"],
                 ensures=["implies(self.path in disk_exists, dict_eq(self.hashes, disk_hashes[self.path]))",
                          "implies(self.path not in disk_exists, dict_eq(self.hashes, old(self.hashes)))"],
                 raises={"json.JSONDecodeError": "self.path in disk_exists and self.path not in disk_valid"},
                 serves=S, note="records are read back from the file written by close() (C18 persistence)")
    # ---- NoopSpecHashes: every operation is the identity, has_changed is None
    for m, extra in (("has_changed", {"target": vc.Target}), ("update", {"target": vc.Target}),
                     ("invalidate", {"target": vc.Target}), ("close", {}), ("__exit__", {"exc": T.NONE})):
        ens = {"has_changed": IF_HAS, "update": IF_UPD, "invalidate": IF_INV, "close": CLOSE_ENS,
               "__exit__": CLOSE_ENS}[m]
        eng.contract(f"gwf.core:NoopSpecHashes.{m}", self_type=NH, params={"self": NH, **extra},
                     returns=OH if m == "has_changed" else None, requires=["not self.is_file"], ensures=ens, serves=S)
    eng.contract("gwf.core:NoopSpecHashes.__enter__", self_type=NH, params={"self": NH}, returns=NH,
                 returns_expr="self", serves=S)

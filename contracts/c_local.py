"""Contracts for the local worker pool (gwf.backends.local): C11, C12, C13, C14 and the local parts of C07/C08.

Concurrency model (DESIGN 2.4): asyncio is single-threaded and cooperative. Code between two awaits is atomic.
Every `await` is (i) an interference point: the shared tables are havocked under the rely relation R below, and
(ii) a point where CancelledError may be delivered instead of the awaited result."""
import asyncio
import z3
from pyvc import ty as T
from pyvc.core import Loop, V, Exc, Unsupported


def install(eng):
    import gwf.backends.local as L
    vc = eng.vc
    LS = eng.enum_type(L.LocalStatus)
    vc.LocalStatus = LS
    Tid = T.INT
    Sch = T.ObjT("Scheduler")
    Task = T.ObjT("AioTask")
    Sem = T.ObjT("Semaphore")
    Proc = T.ObjT("Proc")
    Bytes = T.Atom("Bytes")
    vc.Scheduler = Sch
    STS = T.DictT(Tid, LS)
    TKS = T.DictT(Tid, Task)
    eng.cls("AioTask", consts={"tid": Tid})
    eng.cls("Semaphore")
    eng.cls("Proc", fields={"returncode": T.Opt(T.INT)})
    eng.cls("Scheduler", pyname="gwf.backends.local:Scheduler",
            fields={"task_states": STS, "tasks": TKS},
            consts={"working_dir": vc.Path, "max_cores": T.INT, "cores_ressource": Sem})
    eng.universe("Tid", Tid)
    eng.universe("AioTask", Task)
    eng.spec_consts["LocalStatus"] = V(T.PY, L.LocalStatus)
    # ghost: tasks whose coroutine has finished; shutdown in progress (Scheduler.kill ran)
    eng.ghost("done_tasks", T.SetT(Tid))
    eng.ghost("shutdown", T.BOOL)
    f_tid = eng.const_fn("AioTask", "tid", Tid)
    FINAL = ("FAILED", "COMPLETED", "CANCELLED", "KILLED")

    def is_final(z):
        return z3.Or(*[z == LS.const(n) for n in FINAL])

    eng.fn("Final")(lambda e, st, s: V(T.BOOL, is_final(e.coerce(s, LS).z)))

    class Model:
        """rely/guarantee for the coroutines of one Scheduler (justified by the write-site census below)"""

        def rely(self, e, st, n):
            cur = e.current
            me = st.env.get("self")
            tid = st.env.get("tid")
            old_ts = st.heap[("Scheduler", "task_states")]
            old_tk = st.heap[("Scheduler", "tasks")]
            old_done = st.ghost["done_tasks"]
            new_ts = z3.FreshConst(old_ts.sort(), "task_states")
            new_tk = z3.FreshConst(old_tk.sort(), "tasks")
            new_done = z3.FreshConst(old_done.z.sort(), "done_tasks")
            st2 = st.set_heap(("Scheduler", "task_states"), new_ts).set_heap(("Scheduler", "tasks"), new_tk) \
                .set_ghost("done_tasks", V(old_done.ty, new_done))
            if me is None:
                return st2
            o, n_ = z3.Select(old_ts, me.z), z3.Select(new_ts, me.z)
            k = z3.Int("k!rely")
            ot, nt = z3.Select(old_tk, me.z), z3.Select(new_tk, me.z)
            facts = [
                # the task table only grows (enqueue_task), keeps its entries, and stays aligned with the state table
                z3.ForAll([k], z3.Implies(z3.Select(TKS.dom(ot), k),
                                          z3.And(z3.Select(TKS.dom(nt), k), z3.Select(TKS.vals(nt), k) == z3.Select(TKS.vals(ot), k)))),
                z3.ForAll([k], z3.Select(TKS.dom(nt), k) == z3.Select(STS.dom(n_), k)),
                z3.ForAll([k], z3.Implies(z3.Select(TKS.dom(nt), k), f_tid(z3.Select(TKS.vals(nt), k)) == k)),
                # other schedulers' tables are untouched; the task table of this one is unchanged (only enqueue adds)
                z3.ForAll([x := z3.Const("o!rely", Sch.sort())], z3.Implies(x != me.z, z3.Select(new_ts, x) == z3.Select(old_ts, x))),
                # R: ids are never removed; done is permanent; a finished task in a final state keeps it
                z3.ForAll([k], z3.Implies(z3.Select(STS.dom(o), k), z3.Select(STS.dom(n_), k))),
                z3.ForAll([k], z3.Implies(z3.Select(old_done.z, k), z3.Select(new_done, k))),
                z3.ForAll([k], z3.Implies(z3.And(z3.Select(old_done.z, k), is_final(z3.Select(STS.vals(o), k))),
                                          z3.Select(STS.vals(n_), k) == z3.Select(STS.vals(o), k))),
                # invariant of the pool, guaranteed by every coroutine's postcondition: done => final
                z3.ForAll([k], z3.Implies(z3.And(z3.Select(new_done, k), z3.Select(STS.dom(n_), k)),
                                          is_final(z3.Select(STS.vals(n_), k)))),
            ]
            if tid is not None and tid.ty is T.INT:
                mine_old, mine_new = z3.Select(STS.vals(o), tid.z), z3.Select(STS.vals(n_), tid.z)
                # my own entry: only cancel_task writes it (CANCELLED, when it was SUBMITTED/RUNNING); I am not done
                facts += [z3.Or(mine_new == mine_old,
                                z3.And(mine_new == LS.const("CANCELLED"),
                                       z3.Or(mine_old == LS.const("SUBMITTED"), mine_old == LS.const("RUNNING")))),
                          z3.Not(z3.Select(new_done, tid.z)), z3.Select(STS.dom(n_), tid.z)]
            return st2.assume(*facts)

        def interfere(self, e, st, n):
            return self.rely(e, st, n)

        def cancelled(self, e, st, sink, n):
            """CancelledError at this await: cancel_task(tid) ran (it has already written CANCELLED) or the pool is
            shutting down (Scheduler.kill)"""
            st2 = self.rely(e, st, n)
            tid = st2.env.get("tid")
            me = st2.env.get("self")
            if tid is None or me is None:
                sink.append((st2, Exc(asyncio.CancelledError)))
                return
            ts = z3.Select(st2.heap[("Scheduler", "task_states")], me.z)
            why = z3.Or(z3.Select(STS.vals(ts), tid.z) == LS.const("CANCELLED"), st2.ghost["shutdown"].z)
            if e.feasible(st2, why):
                sink.append((st2.assume(why), Exc(asyncio.CancelledError)))

    eng.async_model = Model()
    eng.async_shared = [("Scheduler", "task_states"), ("Scheduler", "tasks")]
    eng.async_ghost = ["done_tasks"]
    eng.exc_names["CancelledError"] = asyncio.CancelledError
    eng.exc_names["TimeoutError"] = TimeoutError

    # ---- asyncio / process externals (trusted)
    GL = {"g_held": T.BOOL, "g_proc": T.BOOL, "g_comm": T.BOOL, "g_killed": T.BOOL}
    eng.contract("iface:Semaphore.acquire", self_type=Sem, params={"self": Sem}, returns=T.BOOL, trusted=True,
                 captures={"g_held": T.BOOL}, modifies=["g_held"], requires=["not g_held"], ensures=["g_held", "result"],
                 note="asyncio.Semaphore.acquire: returns once a unit was taken; if cancelled while waiting nothing is taken")
    eng.contract("iface:Semaphore.release", self_type=Sem, params={"self": Sem}, trusted=True,
                 captures={"g_held": T.BOOL, "g_proc": T.BOOL, "g_comm": T.BOOL, "g_killed": T.BOOL},
                 modifies=["g_held"],
                 # C12: a unit is given back only by the coroutine that holds one, and only after its process ended
                 requires=["g_held", "implies(g_proc, g_comm or g_killed)"], ensures=["not g_held"])

    def r_wait(e, args, kw, st, sink, n):
        """asyncio.wait(tasks, return_when=ALL_COMPLETED): returns when every given task is done"""
        tasks = args[0]
        rw = kw.get("return_when")
        if rw is not None:     # the default is ALL_COMPLETED too
            val = rw.z if rw.ty is T.PY else (rw.z.as_string() if z3.is_string_value(rw.z) else None)
            if val != asyncio.ALL_COMPLETED:
                raise Unsupported("asyncio.wait with return_when other than ALL_COMPLETED", n)
        st = st.set_meta("waited_tasks", tasks)
        yield st, e.lift(None)

    eng.rules[asyncio.wait] = r_wait
    _interfere = eng.async_model.interfere

    def interfere(e, st, n):
        st2 = _interfere(e, st, n)
        w = st.meta.get("waited_tasks")
        if w is not None:
            # after the wait resumes normally every awaited task is done
            t = Task.fresh("t")
            st2 = st2.set_meta("waited_tasks", None)
            if isinstance(w.aux, tuple) and w.aux[0] == "image":
                _, bound, guard, elt = w.aux      # {tasks[d] for d in deps}: stated over the source elements
                st2 = st2.assume(z3.ForAll(bound, z3.Implies(guard, z3.Select(st2.ghost["done_tasks"].z, f_tid(elt.z)))))
            else:
                elems = w.z if isinstance(w.ty, T.SetT) else w.ty.elems(w.z)
                st2 = st2.assume(z3.ForAll([t], z3.Implies(z3.Select(elems, t), z3.Select(st2.ghost["done_tasks"].z, f_tid(t)))))
        return st2

    eng.async_model.interfere = interfere
    eng.contract("ext:create_subprocess_shell", params={"script": T.STR, "stdout": None, "stderr": None, "cwd": vc.Path},
                 returns=Proc, trusted=True, captures={"g_held": T.BOOL, "g_proc": T.BOOL, "self": Sch, "deps": T.ListV(Tid)},
                 modifies=["g_proc", "Proc.returncode"],
                 requires=[
                     # C12: a process is only started while holding a core
                     "g_held",
                     # C11: ... and only when every dependency completed successfully
                     "all(d in self.task_states and self.task_states[d] == LocalStatus.COMPLETED for d in deps)",
                     "not g_proc"],
                 ensures=["g_proc", "result.returncode is None"],
                 raises={"OSError": {"cond": "True", "modifies": [], "exact": False}},
                 note="asyncio.create_subprocess_shell: may fail with OSError (missing working directory, no fork)")
    eng.rules[asyncio.create_subprocess_shell] = lambda e, args, kw, st, sink, n: e.call_contract(
        eng.contracts["ext:create_subprocess_shell"], args, kw, st, sink, n)
    eng.contract("ext:wait_for_communicate", params={"proc": Proc, "timeout": T.Opt(T.REAL)},
                 returns=T.TupT(Bytes, Bytes), trusted=True, captures={"g_comm": T.BOOL}, modifies=["g_comm", "proc.returncode"],
                 ensures=["g_comm", "proc.returncode is not None"],
                 raises={"TimeoutError": {"cond": "timeout is not None", "modifies": []}},
                 note="asyncio.wait_for(proc.communicate(), timeout): the process ended and its whole output is returned, "
                      "or the time limit expired (process still running)")

    def r_wait_for(e, args, kw, st, sink, n):
        coro = args[0]
        if not (coro.ty is T.PY and isinstance(coro.z, tuple) and coro.z[0] == "communicate"):
            raise Unsupported("asyncio.wait_for of this awaitable", n)
        yield from e.call_contract(eng.contracts["ext:wait_for_communicate"], [coro.z[1], kw.get("timeout", e.lift(None))],
                                   {}, st, sink, n)

    eng.rules[asyncio.wait_for] = r_wait_for
    eng.method_rules[("Obj_Proc", "communicate")] = lambda e, bb, a, kw, st, sink, n: iter([(st, V(T.PY, ("communicate", bb.recv)))])
    eng.contract("iface:Proc.kill", self_type=Proc, params={"self": Proc}, trusted=True, captures={"g_killed": T.BOOL},
                 modifies=["g_killed"], ensures=["g_killed"])
    eng.contract("iface:Proc.terminate", self_type=Proc, params={"self": Proc}, trusted=True, pure=True)
    eng.contract("iface:Proc.wait", self_type=Proc, params={"self": Proc}, trusted=True, modifies=["self.returncode"],
                 ensures=["self.returncode is not None"])
    eng.rules[asyncio.sleep] = lambda e, args, kw, st, sink, n: iter([(st, e.lift(None))])

    # ================================================================== the task coroutine
    OP = T.Opt(Proc)
    GLOC = {"g_held": T.BOOL, "g_proc": T.BOOL, "g_comm": T.BOOL, "g_killed": T.BOOL}
    POOLINV = ["all(self.tasks[k].tid == k for k in self.tasks)",
               "forall(lambda k: (k in self.tasks) == (k in self.task_states), Tid)",
               # invariant of the pool: a finished coroutine left its task in a final state (every coroutine's
               # postcondition, C13)
               "forall(lambda k: implies(k in done_tasks and k in self.task_states, Final(self.task_states[k])), Tid)"]
    eng.contract(
        "gwf.backends.local:Scheduler._gentle_kill", self_type=Sch, params={"self": Sch, "proc": OP}, is_async=True,
        captures={"g_killed": T.BOOL, "tid": Tid},      # ghost view of the calling task coroutine
        requires=["tid in self.task_states", "tid not in done_tasks"] + POOLINV,
        modifies=["g_killed", "Proc.returncode", "Scheduler.task_states", "Scheduler.tasks", "ghost:done_tasks"],
        ensures=["implies(proc is not None, g_killed)", "implies(old(g_killed), g_killed)",
                 "tid in self.task_states", "tid not in done_tasks",
                 "self.task_states[tid] == old(self.task_states[tid]) or self.task_states[tid] == LocalStatus.CANCELLED"] + POOLINV,
        # cancelled while killing (shutdown, or a cancel_task that arrived meanwhile): the kill signal has been sent
        raises={"CancelledError": {"cond": "shutdown or self.task_states[tid] == LocalStatus.CANCELLED",
                                   "ensures": ["implies(proc is not None, g_killed)", "implies(old(g_killed), g_killed)",
                                               "tid in self.task_states"]}},
        serves=["C13", "C12"])
    LOGP = "self.working_dir.joinpath('.gwf', 'logs', name + '%s')"
    eng.contract(
        "gwf.backends.local:Scheduler.try_handle_task", self_type=Sch, is_async=True,
        params={"self": Sch, "tid": Tid, "name": T.STR, "script": T.STR, "working_dir": vc.Path,
                "time_limit": T.Opt(T.REAL), "deps": T.ListV(Tid)},
        locals={"proc": OP}, ghost_locals=GLOC,
        requires=POOLINV + ["tid in self.task_states", "self.task_states[tid] == LocalStatus.SUBMITTED",
                            "tid not in done_tasks"],
        entry_assume=["not g_held", "not g_proc", "not g_comm", "not g_killed"],     # ghost initialisation
        modifies=["Scheduler.task_states", "Scheduler.tasks", "ghost:done_tasks", "Proc.returncode", "ghost:file_bytes",
                  "ghost:disk_exists", "ghost:disk_valid"],
        ensures=[
            # C13: whatever happened, the task ends in a final state ...
            "Final(self.task_states[tid])",
            # C12: ... holding no core
            "not g_held",
            # C13: completed iff its process ran to the end, exited 0 and both logs were stored completely
            "implies(self.task_states[tid] == LocalStatus.COMPLETED, g_proc and g_comm and proc is not None and "
            "the(proc).returncode == 0)",
            # C11: without a process (a dependency did not complete) the task is not completed
            "implies(not g_proc, self.task_states[tid] != LocalStatus.COMPLETED)",
            # C13: after cancellation / time-out the process was sent the kill sequence
            "implies(g_proc and self.task_states[tid] in (LocalStatus.CANCELLED, LocalStatus.KILLED) and not g_comm, g_killed)",
        ],
        exc_ensures=["not g_held"],
        # CancelledError may escape only from inside a handler (second delivery: shutdown, or a cancel_task that
        # arrived while the time-out handler was killing the process): the task is then already CANCELLED
        raises={"CancelledError": "shutdown or self.task_states[tid] == LocalStatus.CANCELLED"},
        loops={1: Loop(seen="sd", inv=POOLINV + [
            "all(d in self.task_states and d in done_tasks for d in deps)",
            "all(self.task_states[d] == LocalStatus.COMPLETED for d in sd)",
            "tid in self.task_states", "tid not in done_tasks",
            "not g_held", "not g_proc", "not g_comm", "not g_killed", "proc is None"])},
        serves=["C11", "C12", "C13"])
    eng.contracts["gwf.backends.local:Scheduler.try_handle_task"].io_may_fail = True

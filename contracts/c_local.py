"""Contracts for the local worker pool (gwf.backends.local): C11, C12, C13, C14 and the local parts of C07/C08.

Concurrency model (DESIGN 2.4): asyncio is single-threaded and cooperative. Code between two awaits is atomic.
Every `await` is (i) an interference point: the shared tables are havocked under the rely relation R below, and
(ii) a point where CancelledError may be delivered instead of the awaited result."""
import asyncio
import z3
from pyvc import ty as T
from pyvc.core import Loop, V, Exc, Unsupported


def install(eng):
    import gwf.backends.local as L
    vc = eng.vc
    LS = eng.enum_type(L.LocalStatus)
    vc.LocalStatus = LS
    Tid = T.INT
    Sch = T.ObjT("Scheduler")
    Task = T.ObjT("AioTask")
    Sem = T.ObjT("Semaphore")
    Proc = T.ObjT("Proc")
    Bytes = T.Atom("Bytes")
    vc.Scheduler = Sch
    STS = T.DictT(Tid, LS)
    TKS = T.DictT(Tid, Task)
    eng.cls("AioTask", consts={"tid": Tid})
    eng.cls("Semaphore")
    eng.cls("Proc", fields={"returncode": T.Opt(T.INT)})
    eng.cls("Scheduler", pyname="gwf.backends.local:Scheduler",
            fields={"task_states": STS, "tasks": TKS},
            consts={"working_dir": vc.Path, "max_cores": T.INT, "cores_ressource": Sem})
    eng.universe("Tid", Tid)
    eng.universe("AioTask", Task)
    eng.spec_consts["LocalStatus"] = V(T.PY, L.LocalStatus)
    # ghost: tasks whose coroutine has finished; shutdown in progress (Scheduler.kill ran)
    eng.ghost("done_tasks", T.SetT(Tid))
    eng.ghost("shutdown", T.BOOL)
    f_tid = eng.const_fn("AioTask", "tid", Tid)
    FINAL = ("FAILED", "COMPLETED", "CANCELLED", "KILLED")

    def is_final(z):
        return z3.Or(*[z == LS.const(n) for n in FINAL])

    eng.fn("Final")(lambda e, st, s: V(T.BOOL, is_final(e.coerce(s, LS).z)))

    class Model:
        """rely/guarantee for the coroutines of one Scheduler (justified by the write-site census below)"""

        def rely(self, e, st, n):
            cur = e.current
            me = st.env.get("self")
            if me is not None and isinstance(me.ty, T.ObjT) and me.ty.cls == "Server":
                me = V(Sch, eng.const_fn("Server", "scheduler", Sch)(me.z))     # the pool served by this server
            tid = st.env.get("tid") if (st.env.get("self") is not None and st.env["self"].ty == Sch) else None
            old_ts = st.heap[("Scheduler", "task_states")]
            old_tk = st.heap[("Scheduler", "tasks")]
            old_done = st.ghost["done_tasks"]
            new_ts = z3.FreshConst(old_ts.sort(), "task_states")
            new_tk = z3.FreshConst(old_tk.sort(), "tasks")
            new_done = z3.FreshConst(old_done.z.sort(), "done_tasks")
            st2 = st.set_heap(("Scheduler", "task_states"), new_ts).set_heap(("Scheduler", "tasks"), new_tk) \
                .set_ghost("done_tasks", V(old_done.ty, new_done))
            old_iss = st.ghost.get("issued")
            new_iss = None
            if old_iss is not None:
                new_iss = z3.FreshConst(old_iss.z.sort(), "issued")
                st2 = st2.set_ghost("issued", V(old_iss.ty, new_iss))
            if me is None:
                return st2
            o, n_ = z3.Select(old_ts, me.z), z3.Select(new_ts, me.z)
            k = z3.Int("k!rely")
            ot, nt = z3.Select(old_tk, me.z), z3.Select(new_tk, me.z)
            facts = [
                # the task table only grows (enqueue_task), keeps its entries, and stays aligned with the state table
                z3.ForAll([k], z3.Implies(z3.Select(TKS.dom(ot), k),
                                          z3.And(z3.Select(TKS.dom(nt), k), z3.Select(TKS.vals(nt), k) == z3.Select(TKS.vals(ot), k)))),
                z3.ForAll([k], z3.Select(TKS.dom(nt), k) == z3.Select(STS.dom(n_), k)),
                z3.ForAll([k], z3.Implies(z3.Select(TKS.dom(nt), k), f_tid(z3.Select(TKS.vals(nt), k)) == k)),
                z3.ForAll([k], z3.Implies(z3.Select(STS.dom(n_), k), z3.Select(STS.vals(n_), k) != LS.const("UNKNOWN"))),
                # other schedulers' tables are untouched; the task table of this one is unchanged (only enqueue adds)
                z3.ForAll([x := z3.Const("o!rely", Sch.sort())], z3.Implies(x != me.z, z3.Select(new_ts, x) == z3.Select(old_ts, x))),
                # R: ids are never removed; done is permanent; a finished task in a final state keeps it
                z3.ForAll([k], z3.Implies(z3.Select(STS.dom(o), k), z3.Select(STS.dom(n_), k))),
                z3.ForAll([k], z3.Implies(z3.Select(old_done.z, k), z3.Select(new_done, k))),
                z3.ForAll([k], z3.Implies(z3.And(z3.Select(old_done.z, k), is_final(z3.Select(STS.vals(o), k))),
                                          z3.Select(STS.vals(n_), k) == z3.Select(STS.vals(o), k))),
                # invariant of the pool, guaranteed by every coroutine's postcondition: done => final
                z3.ForAll([k], z3.Implies(z3.And(z3.Select(new_done, k), z3.Select(STS.dom(n_), k)),
                                          is_final(z3.Select(STS.vals(n_), k)))),
            ]
            if new_iss is not None:
                # other handlers may enqueue: ids handed out only grow, and every id in the table was handed out
                facts += [z3.ForAll([k], z3.Implies(z3.Select(old_iss.z, k), z3.Select(new_iss, k))),
                          z3.ForAll([k], z3.Implies(z3.Select(STS.dom(n_), k), z3.Select(new_iss, k))),
                          z3.ForAll([k], z3.Implies(z3.Select(new_done, k), z3.Select(new_iss, k)))]
            if tid is not None and tid.ty is T.INT:
                mine_old, mine_new = z3.Select(STS.vals(o), tid.z), z3.Select(STS.vals(n_), tid.z)
                # my own entry: only cancel_task writes it (CANCELLED, when it was SUBMITTED/RUNNING); I am not done
                facts += [z3.Or(mine_new == mine_old,
                                z3.And(mine_new == LS.const("CANCELLED"),
                                       z3.Or(mine_old == LS.const("SUBMITTED"), mine_old == LS.const("RUNNING")))),
                          z3.Not(z3.Select(new_done, tid.z)), z3.Select(STS.dom(n_), tid.z)]
            return st2.assume(*facts)

        def interfere(self, e, st, n):
            return self.rely(e, st, n)

        def cancelled(self, e, st, sink, n):
            """CancelledError at this await: cancel_task(tid) ran (it has already written CANCELLED) or the pool is
            shutting down (Scheduler.kill)"""
            st2 = self.rely(e, st, n)
            me = st2.env.get("self")
            tid = st2.env.get("tid") if (me is not None and me.ty == Sch) else None
            if tid is None or me is None:
                sink.append((st2, Exc(asyncio.CancelledError)))
                return
            ts = z3.Select(st2.heap[("Scheduler", "task_states")], me.z)
            why = z3.Or(z3.Select(STS.vals(ts), tid.z) == LS.const("CANCELLED"), st2.ghost["shutdown"].z)
            if e.feasible(st2, why):
                sink.append((st2.assume(why), Exc(asyncio.CancelledError)))

    eng.async_model = Model()
    eng.async_shared = [("Scheduler", "task_states"), ("Scheduler", "tasks")]
    eng.async_ghost = ["done_tasks"]
    eng.exc_names["CancelledError"] = asyncio.CancelledError
    eng.exc_names["TimeoutError"] = TimeoutError

    # ---- asyncio / process externals (trusted)
    GL = {"g_held": T.BOOL, "g_proc": T.BOOL, "g_comm": T.BOOL, "g_killed": T.BOOL}
    eng.contract("iface:Semaphore.acquire", self_type=Sem, params={"self": Sem}, returns=T.BOOL, trusted=True,
                 captures={"g_held": T.BOOL}, modifies=["g_held"], requires=["not g_held"], ensures=["g_held", "result"],
                 note="asyncio.Semaphore.acquire: returns once a unit was taken; if cancelled while waiting nothing is taken")
    eng.contract("iface:Semaphore.release", self_type=Sem, params={"self": Sem}, trusted=True,
                 captures={"g_held": T.BOOL, "g_proc": T.BOOL, "g_comm": T.BOOL, "g_killed": T.BOOL},
                 modifies=["g_held"],
                 # C12: a unit is given back only by the coroutine that holds one, and only after its process ended
                 requires=["g_held", "implies(g_proc, g_comm or g_killed)"], ensures=["not g_held"])

    def r_wait(e, args, kw, st, sink, n):
        """asyncio.wait(tasks, return_when=ALL_COMPLETED): returns when every given task is done"""
        tasks = args[0]
        rw = kw.get("return_when")
        if rw is not None:     # the default is ALL_COMPLETED too
            val = rw.z if rw.ty is T.PY else (rw.z.as_string() if z3.is_string_value(rw.z) else None)
            if val != asyncio.ALL_COMPLETED:
                raise Unsupported("asyncio.wait with return_when other than ALL_COMPLETED", n)
        st = st.set_meta("waited_tasks", tasks)
        yield st, e.lift(None)

    eng.rules[asyncio.wait] = r_wait
    _interfere = eng.async_model.interfere

    def interfere(e, st, n):
        st2 = _interfere(e, st, n)
        w = st.meta.get("waited_tasks")
        if w is not None:
            # after the wait resumes normally every awaited task is done
            t = Task.fresh("t")
            st2 = st2.set_meta("waited_tasks", None)
            if isinstance(w.aux, tuple) and w.aux[0] == "image":
                _, bound, guard, elt = w.aux      # {tasks[d] for d in deps}: stated over the source elements
                st2 = st2.assume(z3.ForAll(bound, z3.Implies(guard, z3.Select(st2.ghost["done_tasks"].z, f_tid(elt.z)))))
            else:
                elems = w.z if isinstance(w.ty, T.SetT) else w.ty.elems(w.z)
                st2 = st2.assume(z3.ForAll([t], z3.Implies(z3.Select(elems, t), z3.Select(st2.ghost["done_tasks"].z, f_tid(t)))))
        return st2

    eng.async_model.interfere = interfere
    eng.contract("ext:create_subprocess_shell", params={"script": T.STR, "stdout": None, "stderr": None, "cwd": vc.Path},
                 returns=Proc, trusted=True, captures={"g_held": T.BOOL, "g_proc": T.BOOL, "self": Sch, "deps": T.ListV(Tid)},
                 modifies=["g_proc", "Proc.returncode"],
                 requires=[
                     # C12: a process is only started while holding a core
                     "g_held",
                     # C11: ... and only when every dependency completed successfully
                     "all(d in self.task_states and self.task_states[d] == LocalStatus.COMPLETED for d in deps)",
                     "not g_proc"],
                 ensures=["g_proc", "result.returncode is None"],
                 raises={"OSError": {"cond": "True", "modifies": [], "exact": False}},
                 note="asyncio.create_subprocess_shell: may fail with OSError (missing working directory, no fork)")
    eng.rules[asyncio.create_subprocess_shell] = lambda e, args, kw, st, sink, n: e.call_contract(
        eng.contracts["ext:create_subprocess_shell"], args, kw, st, sink, n)
    eng.contract("ext:wait_for_communicate", params={"proc": Proc, "timeout": T.Opt(T.REAL)},
                 returns=T.TupT(Bytes, Bytes), trusted=True, captures={"g_comm": T.BOOL}, modifies=["g_comm", "proc.returncode"],
                 ensures=["g_comm", "proc.returncode is not None"],
                 raises={"TimeoutError": {"cond": "timeout is not None", "modifies": []}},
                 note="asyncio.wait_for(proc.communicate(), timeout): the process ended and its whole output is returned, "
                      "or the time limit expired (process still running)")

    def r_wait_for(e, args, kw, st, sink, n):
        coro = args[0]
        if not (coro.ty is T.PY and isinstance(coro.z, tuple) and coro.z[0] == "communicate"):
            raise Unsupported("asyncio.wait_for of this awaitable", n)
        yield from e.call_contract(eng.contracts["ext:wait_for_communicate"], [coro.z[1], kw.get("timeout", e.lift(None))],
                                   {}, st, sink, n)

    eng.rules[asyncio.wait_for] = r_wait_for
    eng.method_rules[("Obj_Proc", "communicate")] = lambda e, bb, a, kw, st, sink, n: iter([(st, V(T.PY, ("communicate", bb.recv)))])
    eng.contract("iface:Proc.kill", self_type=Proc, params={"self": Proc}, trusted=True, captures={"g_killed": T.BOOL},
                 modifies=["g_killed"], ensures=["g_killed"])
    eng.contract("iface:Proc.terminate", self_type=Proc, params={"self": Proc}, trusted=True, pure=True)
    eng.contract("iface:Proc.wait", self_type=Proc, params={"self": Proc}, trusted=True, modifies=["self.returncode"],
                 ensures=["self.returncode is not None"])
    eng.rules[asyncio.sleep] = lambda e, args, kw, st, sink, n: iter([(st, e.lift(None))])

    # ================================================================== the task coroutine
    OP = T.Opt(Proc)
    GLOC = {"g_held": T.BOOL, "g_proc": T.BOOL, "g_comm": T.BOOL, "g_killed": T.BOOL}
    POOLINV = ["all(self.tasks[k].tid == k for k in self.tasks)",
               "all(self.task_states[k] != LocalStatus.UNKNOWN for k in self.task_states)",
               "forall(lambda k: (k in self.tasks) == (k in self.task_states), Tid)",
               # invariant of the pool: a finished coroutine left its task in a final state (every coroutine's
               # postcondition, C13)
               "forall(lambda k: implies(k in done_tasks and k in self.task_states, Final(self.task_states[k])), Tid)"]
    eng.contract(
        "gwf.backends.local:Scheduler._gentle_kill", self_type=Sch, params={"self": Sch, "proc": OP}, is_async=True,
        captures={"g_killed": T.BOOL, "tid": Tid},      # ghost view of the calling task coroutine
        requires=["tid in self.task_states", "tid not in done_tasks"] + POOLINV,
        modifies=["g_killed", "Proc.returncode", "Scheduler.task_states", "Scheduler.tasks", "ghost:done_tasks"],
        ensures=["implies(proc is not None, g_killed)", "implies(old(g_killed), g_killed)",
                 "tid in self.task_states", "tid not in done_tasks",
                 "self.task_states[tid] == old(self.task_states[tid]) or self.task_states[tid] == LocalStatus.CANCELLED"] + POOLINV,
        # cancelled while killing (shutdown, or a cancel_task that arrived meanwhile): the kill signal has been sent
        raises={"CancelledError": {"cond": "shutdown or self.task_states[tid] == LocalStatus.CANCELLED",
                                   "ensures": ["implies(proc is not None, g_killed)", "implies(old(g_killed), g_killed)",
                                               "tid in self.task_states"]}},
        serves=["C13", "C12", "C14"])
    LOGP = "self.working_dir.joinpath('.gwf', 'logs', name + '%s')"
    eng.contract(
        "gwf.backends.local:Scheduler.try_handle_task", shards=4, self_type=Sch, is_async=True,
        params={"self": Sch, "tid": Tid, "name": T.STR, "script": T.STR, "working_dir": vc.Path,
                "time_limit": T.Opt(T.REAL), "deps": T.ListV(Tid)},
        locals={"proc": OP}, ghost_locals=GLOC,
        requires=POOLINV + ["tid in self.task_states", "self.task_states[tid] == LocalStatus.SUBMITTED",
                            "tid not in done_tasks"],
        entry_assume=["not g_held", "not g_proc", "not g_comm", "not g_killed"],     # ghost initialisation
        modifies=["Scheduler.task_states", "Scheduler.tasks", "ghost:done_tasks", "Proc.returncode", "ghost:file_bytes",
                  "ghost:disk_exists", "ghost:disk_valid"],
        ensures=[
            # C13: whatever happened, the task ends in a final state ...
            "Final(self.task_states[tid])",
            # C12: ... holding no core
            "not g_held",
            # C13: completed iff its process ran to the end, exited 0 and both logs were stored completely
            "implies(self.task_states[tid] == LocalStatus.COMPLETED, g_proc and g_comm and proc is not None and "
            "the(proc).returncode == 0)",
            # C11: without a process (a dependency did not complete) the task is not completed
            "implies(not g_proc, self.task_states[tid] != LocalStatus.COMPLETED)",
            # C13: after cancellation / time-out the process was sent the kill sequence
            "implies(g_proc and self.task_states[tid] in (LocalStatus.CANCELLED, LocalStatus.KILLED) and not g_comm, g_killed)",
        ],
        exc_ensures=["not g_held"],
        # CancelledError may escape only from inside a handler (second delivery: shutdown, or a cancel_task that
        # arrived while the time-out handler was killing the process): the task is then already CANCELLED
        raises={"CancelledError": "shutdown or self.task_states[tid] == LocalStatus.CANCELLED"},
        loops={1: Loop(seen="sd", inv=POOLINV + [
            "all(d in self.task_states and d in done_tasks for d in deps)",
            "all(self.task_states[d] == LocalStatus.COMPLETED for d in sd)",
            "tid in self.task_states", "tid not in done_tasks",
            "not g_held", "not g_proc", "not g_comm", "not g_killed", "proc is None"])},
        # C14 as well: "stays able to accept new tasks" needs every coroutine to give its core back (S118)
        serves=["C11", "C12", "C13", "C07", "C14"])
    eng.contracts["gwf.backends.local:Scheduler.try_handle_task"].io_may_fail = True

    # ================================================================== the other Scheduler methods (C13, C14)
    import itertools
    eng.ghost("issued", T.SetT(Tid))                  # ids handed out by this pool's itertools.count()
    eng.ghost("cancel_requested", T.SetT(Tid))        # Task.cancel() calls
    eng.classes["Scheduler"].consts["tid_generator"] = T.ObjT("Count")
    eng.cls("Count")
    _r_next = eng.rules[next]

    def r_next2(e, args, kw, st, sink, n):
        if isinstance(args[0].ty, T.ObjT) and args[0].ty.cls == "Count":
            iss = st.ghost["issued"]
            r, st = e.fresh(Tid, "tid", st)
            # itertools.count(): every call returns a number it never returned before (trusted)
            st = st.assume(z3.Not(z3.Select(iss.z, r.z)))
            yield st.set_ghost("issued", V(iss.ty, z3.Store(iss.z, r.z, True))), r
        else:
            yield from _r_next(e, args, kw, st, sink, n)

    eng.rules[next] = r_next2

    def r_create_task(e, args, kw, st, sink, n):
        co = args[0]
        if not (co.ty is T.PY and isinstance(co.z, tuple) and co.z[0] == "coro"):
            raise Unsupported("asyncio.create_task of something that is not a contracted coroutine", n)
        _, cc, cargs, ckw = co.z
        t, st = e.fresh(Task, "task", st)
        # ghost: the task object knows the id of the coroutine it runs (second positional argument after self)
        names = list(cc.params)
        tidv = cargs[names.index("tid")] if "tid" in names and len(cargs) > names.index("tid") else None
        if tidv is not None:
            st = st.assume(f_tid(t.z) == tidv.z)
        st = st.set_meta("spawned", tuple(st.meta.get("spawned", ())) + ((cc, cargs, ckw, n),))
        yield st, t

    eng.rules[asyncio.create_task] = r_create_task
    eng.contract("iface:AioTask.cancel", self_type=Task, params={"self": Task}, trusted=True,
                 modifies=["ghost:cancel_requested"],
                 ensures=["forall(lambda k: (k in cancel_requested) == (k in old(cancel_requested) or k == self.tid), Tid)"],
                 note="asyncio.Task.cancel(): CancelledError is delivered at the task's current / next suspension")
    SINV = POOLINV + ["forall(lambda k: implies(k in self.task_states, k in issued), Tid)"]
    OTHERS = ("forall(lambda k: implies(k != %s, (k in self.task_states) == (k in old(self.task_states)) and "
              "implies(k in self.task_states, self.task_states[k] == old(self.task_states)[k]) and "
              "(k in self.tasks) == (k in old(self.tasks)) and "
              "implies(k in self.tasks, self.tasks[k] == old(self.tasks)[k])), Tid)")
    eng.contract(
        "gwf.backends.local:Scheduler.enqueue_task", self_type=Sch, is_async=True,
        params={"self": Sch, "name": T.STR, "script": T.STR, "working_dir": vc.Path, "time_limit": T.Opt(T.REAL),
                "deps": T.ListV(Tid)}, returns=Tid, requires=SINV,
        modifies=["self.task_states", "self.tasks", "ghost:issued"],
        ensures=SINV + [
            # C14: the id is new for this pool; exactly one entry is added, in state SUBMITTED
            "result not in old(self.task_states)", "result in self.task_states",
            "self.task_states[result] == LocalStatus.SUBMITTED", "result not in done_tasks or True",
            OTHERS % "result"],
        entry_assume=["forall(lambda k: implies(k in done_tasks, k in issued), Tid)"],
        # C11/C07: the worker is started with exactly the dependency ids the client sent (none dropped, none added) and
        # under the id that is returned; try_handle_task's guarantees are about ITS deps argument
        spawn_ensures={"gwf.backends.local:Scheduler.try_handle_task": [
            "forall(lambda d: (d in spawn_deps) == (d in old(deps)), Tid)"]},
        serves=["C14", "C13", "C11", "C07"])
    eng.contract(
        "gwf.backends.local:Scheduler.cancel_task", self_type=Sch, is_async=True, params={"self": Sch, "tid": Tid},
        requires=SINV, modifies=["self.task_states", "ghost:cancel_requested"],
        ensures=SINV + [
            # C13: cancelling a finished task changes nothing; a waiting / running one becomes CANCELLED
            "implies(Final(old(self.task_states)[tid]), self.task_states[tid] == old(self.task_states)[tid] and "
            "cancel_requested == old(cancel_requested))",
            "implies(not Final(old(self.task_states)[tid]), self.task_states[tid] == LocalStatus.CANCELLED and tid in cancel_requested)",
            # guarantee for the rely relation: only this entry is written, and only from SUBMITTED / RUNNING
            "forall(lambda k: implies(k != tid, (k in self.task_states) == (k in old(self.task_states)) and "
            "implies(k in self.task_states, self.task_states[k] == old(self.task_states)[k])), Tid)",
            ],
        # C14: an unknown id raises inside the handler and changes nothing
        raises={"KeyError": {"cond": "tid not in self.task_states", "modifies": []}},
        serves=["C13", "C14"])
    eng.contract("gwf.backends.local:Scheduler.get_task_state", self_type=Sch, params={"self": Sch, "tid": Tid},
                 returns=T.Opt(LS), ensures=["implies(tid in self.task_states, result is not None and "
                                             "the(result) == self.task_states[tid])",
                                             "implies(tid not in self.task_states, result is None)"],
                 serves=["C14"])
    eng.contract("gwf.backends.local:Scheduler.get_task_states", self_type=Sch, params={"self": Sch}, returns=STS,
                 # C14: a state query returns each task's state under its own id (a copy of the table)
                 ensures=["dict_eq(result, self.task_states)"], serves=["C14", "C08"])

    # ================================================================== the server (C14)
    import json as _json
    Json = T.Atom("Json")
    Srv = T.ObjT("Server")
    Rd, Wr, AS = T.ObjT("StreamReader"), T.ObjT("StreamWriter"), T.ObjT("AioServer")
    eng.cls("StreamReader")
    eng.cls("StreamWriter")
    eng.cls("AioServer")
    eng.cls("Server", pyname="gwf.backends.local:Server", consts={"scheduler": Sch, "server": AS})
    eng.ghost("server_closed", T.BOOL)
    eng.ghost("sent_states", STS)           # the table sent by the last task_states response
    eng.ghost("last_kind", Json)
    f_jstr = z3.Function("json_str", Json.sort(), z3.StringSort())
    f_jisstr = z3.Function("json_is_str", Json.sort(), z3.BoolSort())
    f_pop = z3.Function("json_pop", Json.sort(), z3.StringSort(), Json.sort())          # value popped
    f_rest = z3.Function("json_rest", Json.sort(), z3.StringSort(), Json.sort())        # message afterwards
    f_jtruthy = z3.Function("json_truthy", Json.sort(), z3.BoolSort())
    eng.eq_hooks[("Json", "Str")] = lambda e, a, b: z3.And(f_jisstr(a.z), f_jstr(a.z) == b.z)
    eng.truthy_hooks["Json"] = lambda e, v: f_jtruthy(v.z)
    eng.fn("JsonIs")(lambda e, st, j, s_: V(T.BOOL, z3.And(f_jisstr(j.z), f_jstr(j.z) == e.coerce(s_, T.STR).z)))
    # arbitrary JSON reaching typed parameters: conversions are uninterpreted (a value of the wrong JSON type makes the
    # task coroutine raise TypeError later, which try_handle_task turns into FAILED)
    for tn, ty_ in (("Str", T.STR), ("Path", vc.Path), ("Int", T.INT)):
        f = z3.Function("json_as_" + tn, Json.sort(), ty_.sort())
        eng.coerce_hooks[("Json", ty_.name)] = (lambda f: lambda e, v: V(f.range() and ty_, f(v.z)))(f) if False else \
            (lambda f, ty_: (lambda e, v: V(ty_, f(v.z))))(f, ty_)
    LTid = T.ListV(Tid)
    f_jlist = z3.Function("json_as_tids", Json.sort(), LTid.sort())
    eng.coerce_hooks[("Json", LTid.name)] = lambda e, v: V(LTid, f_jlist(v.z))
    OR = T.Opt(T.REAL)
    f_jor = z3.Function("json_as_optreal", Json.sort(), OR.sort())
    eng.coerce_hooks[("Json", OR.name)] = lambda e, v: V(OR, f_jor(v.z))
    eng.coerce_hooks[("None", "Json")] = lambda e, v: V(Json, z3.Const("json_null", Json.sort()))

    def r_loads(e, args, kw, st, sink, n):
        sink.append((st, Exc(_json.JSONDecodeError)))          # malformed request
        j, st = e.fresh(Json, "msg", st)
        yield st, j

    eng.rules[_json.loads] = r_loads

    def m_json_pop(e, bb, args, kw, st, sink, n):
        # message.pop(key[, default]) on an arbitrary JSON value: not an object -> AttributeError / TypeError;
        # key missing and no default -> KeyError
        key = e.coerce(args[0], T.STR, n).z
        sink.append((st, Exc(AttributeError)))
        if len(args) == 1:
            sink.append((st, Exc(KeyError)))
        nv = V(Json, f_rest(bb.recv.z, key))
        st2 = e.write_back(bb.recv_node, st, nv, sink)
        if st2.env.get("kind") is None and key.eq(z3.StringVal("__kind__")):
            pass
        yield st2, V(Json, f_pop(bb.recv.z, key))

    eng.method_rules[("Json", "pop")] = m_json_pop
    eng.contract("iface:StreamReader.readline", self_type=Rd, params={"self": Rd}, returns=T.Opt(vc.Bytes), trusted=True,
                 is_async=False, pure=True, raises={"OSError": {"cond": "True", "modifies": [], "exact": False}},
                 note="asyncio.StreamReader.readline (a dropped connection surfaces as b'' or an OSError)")
    eng.contract("iface:AioServer.close", self_type=AS, params={"self": AS}, trusted=True, modifies=["ghost:server_closed"],
                 captures={"kind": Json},
                 # C14: the server is closed only in answer to an explicit shutdown request
                 requires=["JsonIs(kind, 'shutdown')"], ensures=["server_closed"])
    eng.contract("iface:AioServer.wait_closed", self_type=AS, params={"self": AS}, trusted=True, pure=True)
    eng.contract("gwf.backends.local:Server.send_response", self_type=Srv, trusted=True,
                 params={"self": Srv, "writer": Wr, "kind": T.STR, "tid": None, "state": None, "tasks": None},
                 defaults={"tid": V(T.NONE, T.NONE.value()), "state": V(T.NONE, T.NONE.value()),
                           "tasks": V(T.NONE, T.NONE.value())},
                 modifies=["ghost:sent_states"],
                 ensures=["implies(kind == 'task_states', SentIs(tasks))"],
                 raises={"OSError": {"cond": "True", "modifies": [], "exact": False}},
                 note="encode(kind, **kwargs) written to the client socket: the table handed in is the table sent "
                      "(json encoding of LocalStatus by name: CustomEncoder, trusted)")

    def sent_is(e, st, tasks):
        if tasks.ty == STS:
            return V(T.BOOL, e.dict_eq(st.ghost["sent_states"], tasks))
        return V(T.BOOL, z3.BoolVal(True))

    eng.fn("SentIs")(sent_is)
    EXC14 = {"cond": "True", "ensures": []}
    eng.contract(
        "gwf.backends.local:Server.handle_connection", self_type=Srv, is_async=True,
        params={"self": Srv, "reader": Rd, "writer": Wr},
        locals={"message": Json, "kind": Json},
        requires=[s_.replace("self.", "self.scheduler.") for s_ in SINV] + ["not server_closed"],
        modifies=["Scheduler.task_states", "Scheduler.tasks", "ghost:done_tasks", "ghost:issued", "ghost:cancel_requested",
                  "ghost:server_closed", "ghost:sent_states", "ghost:last_kind"],
        ensures=[],
        # C14: whatever a client sends, the handler never stops the server except on an explicit shutdown request
        # and touches the pool only through enqueue_task / cancel_task (their contracts)
        raises={"json.JSONDecodeError": EXC14, "AttributeError": EXC14, "KeyError": EXC14, "AssertionError": EXC14,
                "OSError": EXC14, "CancelledError": EXC14},
        loops={1: Loop(inv=[s_.replace("self.", "self.scheduler.") for s_ in SINV] + ["not server_closed"])},
        serves=["C14"])
    eng.async_ghost.append("issued")

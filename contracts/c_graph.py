"""Contracts for graph construction and the cycle check (gwf.core): C03, C04."""
import z3
from pyvc import ty as T
from pyvc.core import Loop, V


def install(eng):
    import gwf.core
    vc = eng.vc
    FnRef = vc.FnRef
    TS, PS, NT = vc.TargetSet, vc.PathSet, vc.NameTargets
    StateT = T.DictT(vc.Target, T.INT)

    # ================================================================== cycle check (three-colour DFS)
    def on_state_store(e, st, key, val):
        """ghost: the moment state[n] becomes `done` (2), n receives the next finishing time"""
        done = e.coerce(val, T.INT).z == 2
        fin, clock = st.ghost["fin"], st.ghost["clock"]
        k = e.coerce(key, vc.Target).z
        st = st.set_ghost("fin", V(fin.ty, z3.If(done, z3.Store(fin.z, k, clock.z), fin.z)))
        return st.set_ghost("clock", V(T.INT, z3.If(done, clock.z + 1, clock.z)))

    WF = [
        "all(state[n] == 0 or state[n] == 1 or state[n] == 2 for n in state)",
        "all(d in state for n in state for d in deps0(n))",
        # a finished node has only finished dependencies, all with smaller finishing time
        "all(state[d] == 2 and fin[d] < fin[n] for n in state if state[n] == 2 for d in deps0(n))",
        "all(0 <= fin[n] and fin[n] < clock for n in state if state[n] == 2)",
        "clock >= 0",
        "forall(lambda n, m: (m in DepsOfD(dependencies, n)) == (m in deps0(n)), Target, Target)",
    ]
    VCAP = {"state": StateT, "dependencies": vc.DepsT, "fresh": V(T.PY, 0), "started": V(T.PY, 1),
            "done": V(T.PY, 2), "visitor": FnRef("gwf.core:check_for_circular_dependencies.visitor")}
    CYCLE = {"CircularDependencyError": "exists(lambda a: Reach(a, a), Target)"}   # C04: a cycle really exists
    eng.contract(
        "gwf.core:check_for_circular_dependencies.visitor", params={"node": vc.Target}, captures=VCAP,
        requires=WF + ["node in state", "state[node] == 0",
                       # every node on the DFS stack reaches the node being entered
                       "all(Reach(s, node) for s in state if state[s] == 1)"],
        modifies=["state", "dependencies", "ghost:fin", "ghost:clock"],
        ensures=WF + ["state[node] == 2", "dom(state) == old(dom(state))",
                      "all(state[n] == 2 and fin[n] == old(fin)[n] for n in state if old(state)[n] == 2)",
                      "all((state[n] == 1) == (old(state)[n] == 1) for n in state)",
                      "clock >= old(clock)"],
        raises=CYCLE,
        loops={1: Loop(seen="vs", inv=WF + [
            "node in state", "state[node] == 1", "dom(state) == old(dom(state))",
            "all(state[n] == 2 and fin[n] == old(fin)[n] for n in state if old(state)[n] == 2)",
            "all((state[n] == 1) == (old(state)[n] == 1 or n == node) for n in state)",
            "all(Reach(s, node) or s == node for s in state if state[s] == 1)",
            "all(state[d] == 2 for d in vs)", "clock >= old(clock)"])},
        item_monitors={"state": on_state_store}, uses=["reach"], serves=["C04", "C03"],
        note="termination (every call turns one fresh node non-fresh) is argued on paper, not mechanised")

    eng.contract(
        "gwf.core:check_for_circular_dependencies", params={"targets": NT, "dependencies": vc.DepsT},
        locals={"state": StateT},
        requires=["forall(lambda n, m: (m in DepsOfD(dependencies, n)) == (m in deps0(n)), Target, Target)",
                  "all(d in ValSet(targets) for n in ValSet(targets) for d in deps0(n))"],
        entry_assume=["clock == 0"],   # ghost initialisation
        modifies=["dependencies", "ghost:fin", "ghost:clock"],
        ensures=["forall(lambda n, m: (m in DepsOfD(dependencies, n)) == (m in deps0(n)), Target, Target)",
                 # C04: no cycle — a strictly decreasing integer rank along every dependency edge
                 "forall(lambda b, a: implies(b in ValSet(targets) and a in deps0(b), 0 <= fin[a] and fin[a] < fin[b]), "
                 "Target, Target)"],
        raises=CYCLE,
        loops={1: Loop(seen="sk", inv=WF + [
            "dom(state) == ValSet(targets)", "all(state[n] != 1 for n in state)",
            "all(state[targets[k]] == 2 for k in sk)"])},
        item_monitors={"state": on_state_store}, uses=["reach"], serves=["C04", "C03"])

    # ================================================================== Graph
    eng.contract(
        "gwf.core:Graph.__init__",
        params={"targets": NT, "provides": T.DictT(vc.Path, vc.Target), "dependencies": vc.DepsT,
                "dependents": vc.DepsT, "unresolved": PS},
        returns=vc.Graph, trusted=True,
        modifies=["Graph.targets", "Graph.provides", "Graph.dependencies", "Graph.dependents", "Graph.unresolved"],
        ensures=["result.targets == targets", "result.provides == provides", "result.dependencies == dependencies",
                 "result.dependents == dependents", "result.unresolved == unresolved",
                 "forall(lambda g: implies(g != result, g.targets == old(g.targets) and g.provides == old(g.provides) "
                 "and g.dependencies == old(g.dependencies) and g.dependents == old(g.dependents) "
                 "and g.unresolved == old(g.unresolved)), Graph)"],
        note="attrs-generated constructor: stores its arguments in a new object (trusted)")

    TK = "old(targets)[k]"
    # path-level facts established by the first loop nest
    PROV = ["forall(lambda p: (p in provides) == any(p in Outs(a) for a in ValSet(old(targets))), Path)",
            "all(provides[p] in ValSet(old(targets)) and p in Outs(provides[p]) for p in provides)",
            "forall(lambda a, p: implies(a in ValSet(old(targets)) and p in Outs(a), provides[p] == a), Target, Path)"]
    DEPS = ["forall(lambda b, a: (a in DepsOfD(dependencies, b)) == (a in deps0(b)), Target, Target)",
            "forall(lambda p: (p in unresolved) == (p not in provides and any(p in Ins(b) for b in ValSet(old(targets)))), Path)"]
    INVERSE = ["forall(lambda a, b: (b in DepsOfD(dependents, a)) == (a in deps0(b)), Target, Target)",
               "all(dependents[a] != NoTargets for a in dependents)"]
    eng.contract(
        "gwf.core:Graph.from_targets", shards=4, params={"cls": V(T.PY, gwf.core.Graph), "targets": NT, "fs": vc.Fs},
        returns=vc.Graph,
        locals={"provides": T.DictT(vc.Path, vc.Target), "unresolved": PS, "dependencies": vc.DepsT,
                "dependents": vc.DepsT},
        requires=["all(targets[k].name == k for k in targets)"],               # Workflow invariant (C19)
        # definitions (fresh spec symbols naming parts of the entry state): InT = "is a target of this
        # workflow", deps0 = C03's path-induced relation
        defines=["InT", "deps0", "Reach"],
        entry_assume=[
            "forall(lambda u: InT(u) == (u in ValSet(targets)), Target)",
            "forall(lambda b, a: (a in deps0(b)) == PathDep(b, a), Target, Target)"],
        modifies=["Graph.targets", "Graph.provides", "Graph.dependencies", "Graph.dependents", "Graph.unresolved",
                  "ghost:fin", "ghost:clock"],
        ensures=[
            # C03: the graph IS the path-induced relation, its inverse, and the producer map
            "forall(lambda u, d: (d in DepsOf(result, u)) == (d in deps0(u)), Target, Target)",
            "forall(lambda a, b: (b in DependentsOf(result, a)) == (a in deps0(b)), Target, Target)",
            "all(result.dependents[a] != NoTargets for a in result.dependents)",
            "forall(lambda p: (p in result.provides) == any(p in Outs(a) for a in ValSet(targets)), Path)",
            "forall(lambda a, p: implies(a in ValSet(targets) and p in Outs(a), result.provides[p] == a), Target, Path)",
            "forall(lambda p: (p in result.unresolved) == (p not in result.provides and "
            "any(p in Ins(b) for b in ValSet(targets))), Path)",
            "dict_eq(result.targets, targets)",
            # C04 (accepted => well formed): single producers, unresolved inputs exist, acyclic
            "forall(lambda a, b, p: implies(a in ValSet(targets) and b in ValSet(targets) and p in Outs(a) and "
            "p in Outs(b), a == b), Target, Target, Path)",
            "all(fs_exists(fs, p) for p in result.unresolved)",
            "forall(lambda b, a: implies(a in deps0(b), 0 <= fin[a] and fin[a] < fin[b]), Target, Target)",
            # every input is an existing file or an output of a direct dependency (used by scheduling, C01)
            "forall(lambda u, p: implies(InT(u) and p in Ins(u), fs_exists(fs, p) or any(p in Outs(a) for a in deps0(u))), Target, Path)",
            "forall(lambda u, v: implies(InT(u) and InT(v) and u.name == v.name, u == v), Target, Target)",
            "forall(lambda u, d: implies(d in deps0(u), InT(d) and InT(u)), Target, Target)",
        ],
        raises={
            # C04: the error names a defect that is really there
            "FileProvidedByMultipleTargetsError":
                "exists(lambda a, b, p: a in ValSet(targets) and b in ValSet(targets) and a != b and "
                "p in Outs(a) and p in Outs(b), Target, Target, Path)",
            "UnresolvedInputError":
                "exists(lambda b, p: b in ValSet(targets) and p in Ins(b) and not fs_exists(fs, p) and "
                "not any(p in Outs(a) for a in ValSet(targets)), Target, Path)",
            "CircularDependencyError": "exists(lambda a: Reach(a, a), Target)",
        },
        loops={
            1: Loop(seen="s1", inv=[
                "forall(lambda p: (p in provides) == any(p in Outs(%s) for k in s1), Path)" % TK,
                "all(any(provides[p] == %s for k in s1) and p in Outs(provides[p]) for p in provides)" % TK,
                "all(implies(p in Outs(%s), provides[p] == %s) for k in s1 for p in provides)" % (TK, TK)]),
            2: Loop(seen="s2", inv=[
                "forall(lambda p: (p in provides) == (any(p in Outs(%s) for k in s1) or p in s2), Path)" % TK,
                "all((any(provides[p] == %s for k in s1) or provides[p] == target) and p in Outs(provides[p]) "
                "for p in provides)" % TK,
                "all(implies(p in Outs(%s), provides[p] == %s) for k in s1 for p in provides)" % (TK, TK),
                "all(provides[p] == target for p in s2)"]),
            3: Loop(seen="s3", inv=PROV + [
                "forall(lambda b, a: (a in DepsOfD(dependencies, b)) == "
                "(any(b == %s for k in s3) and a in deps0(b)), Target, Target)" % TK,
                "forall(lambda p: (p in unresolved) == (p not in provides and any(p in Ins(%s) for k in s3)), Path)" % TK]),
            4: Loop(seen="s4", inv=PROV + [
                "forall(lambda b, a: (a in DepsOfD(dependencies, b)) == "
                "((any(b == %s for k in s3) and a in deps0(b)) or "
                "(b == target and any(p in provides and provides[p] == a for p in s4))), Target, Target)" % TK,
                "forall(lambda p: (p in unresolved) == (p not in provides and "
                "(any(p in Ins(%s) for k in s3) or p in s4)), Path)" % TK]),
            5: Loop(seen="s5", inv=PROV + DEPS + [
                "forall(lambda a, b: (b in DepsOfD(dependents, a)) == (b in s5 and a in deps0(b)), Target, Target)",
                "all(dependents[a] != NoTargets for a in dependents)"]),
            6: Loop(seen="s6", inv=PROV + DEPS + [
                "forall(lambda a, b: (b in DepsOfD(dependents, a)) == "
                "((b in s5 and a in deps0(b)) or (b == target and a in s6)), Target, Target)",
                "all(dependents[a] != NoTargets for a in dependents)"]),
            7: Loop(seen="s7", inv=PROV + DEPS + INVERSE + [
                "all(implies(p in unresolved, fs_exists(fs, p)) for k in s7 for p in Ins(%s))" % TK]),
            8: Loop(seen="s8", inv=PROV + DEPS + INVERSE + [
                "all(implies(p in unresolved, fs_exists(fs, p)) for k in s7 for p in Ins(%s))" % TK,
                "all(implies(p in unresolved, fs_exists(fs, p)) for p in s8)"]),
        },
        uses=["reach"], serves=["C03", "C04"])

    eng.contract(
        "gwf.core:Graph.endpoints", self_type=vc.Graph, params={"self": vc.Graph}, returns=TS,
        # C03: endpoints are exactly the targets nothing depends on
        requires=["forall(lambda a, b: (b in DependentsOf(self, a)) == (a in deps0(b)), Target, Target)",
                  "all(self.dependents[a] != NoTargets for a in self.dependents)"],
        ensures=["result == setof(lambda t: t in ValSet(self.targets) and "
                 "not exists(lambda b: t in deps0(b), Target), Target)"],
        serves=["C03", "C02", "C05", "C15", "C16"])


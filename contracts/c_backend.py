"""Contracts for gwf.backends.base.TrackingBackend and the submit callbacks of gwf.scheduling:
C05, C07, C08, C09, C17, C18."""
import z3
from pyvc import ty as T
from pyvc.core import Loop, V


def install(eng):
    vc = eng.vc
    B, Ops = vc.Backend, vc.Ops
    TS = vc.TargetSet
    JSet = T.SetT(vc.JobId)
    LJ = T.ListV(vc.JobId)
    LT = T.ListV(vc.Target)
    # ---- ghost view of the scheduler (what it accepted and was told): C07, C09, C17
    eng.ghost("sched_accepted", JSet)
    eng.ghost("sched_deps", T.MapT(vc.JobId, JSet))
    eng.ghost("sched_target", T.MapT(vc.JobId, vc.Target))
    eng.ghost("sched_cancelled", JSet)
    SCHED = ["ghost:sched_accepted", "ghost:sched_deps", "ghost:sched_target"]
    LOGP = ["ghost:log_pos", "ghost:log_n"]
    eng.contract(
        "iface:Ops.submit_target", self_type=Ops, params={"self": Ops, "target": vc.Target, "dependency_ids": LJ},
        returns=vc.JobId, trusted=True, modifies=SCHED + LOGP,
        ensures=[
            # the scheduler accepted one job for this target, held on exactly the ids it was given
            "forall(lambda j: (j in sched_accepted) == (j in old(sched_accepted) or j == result), JobId)",
            "sched_deps == store(old(sched_deps), result, elems(dependency_ids))",
            "sched_target == store(old(sched_target), result, target)",
            "result not in old(sched_accepted)",
            # ASSUMPTION (scheduler): an id handed out is not one gwf still tracks for another target
            # (false for the local pool across a restart: DESIGN F15)
            "all(the_backend._tracked_jobs[k] != result for k in the_backend._tracked_jobs)",
            "result not in the_backend._job_states",
            # ghost submission log: position of this submission
            "forall(lambda u: (u in log_pos) == (u in old(log_pos) or u == target), Target)",
            "log_pos[target] == old(log_n)", "log_n == old(log_n) + 1",
            "all(log_pos[u] == old(log_pos)[u] for u in old(dom(log_pos)) if u != target)"],
        raises={"BackendError": {"cond": "True", "modifies": []}},   # rejected: the scheduler holds no new job
        note="external: sbatch/qsub/bsub/worker pool. Per-backend argv and id parsing are separate contracts")
    eng.contract("iface:Ops.get_job_states", self_type=Ops, params={"self": Ops, "tracked_jobs": LJ},
                 returns=vc.JobStatesT, trusted=True, raises={"BackendError": {"cond": "True", "modifies": []}},
                 note="external: squeue/sacct/qstat/bjobs/worker pool (C08 per-backend tables are separate contracts)")
    eng.contract("iface:Ops.cancel_job", self_type=Ops, params={"self": Ops, "job_id": vc.JobId}, trusted=True,
                 modifies=["ghost:sched_cancelled"],
                 ensures=["forall(lambda j: (j in sched_cancelled) == (j in old(sched_cancelled) or j == job_id), JobId)"],
                 raises={"BackendError": {"cond": "True", "modifies": []}})
    eng.contract("iface:Ops.close", self_type=Ops, params={"self": Ops}, trusted=True,
                 raises={"OSError": {"cond": "True", "modifies": []}},
                 note="LocalOps.close sends on a socket and may raise; the cluster backends' close is a no-op")

    vc.f_statepath = z3.Function("StatePath", B.sort(), vc.Path.sort())
    eng.fn("StatePath")(lambda e, st, b: V(vc.Path, vc.f_statepath(b.z)))
    # StatePath(b) is BY DEFINITION <working_dir>/.gwf/<backend name>-backend-tracked.json (C08: the file of THIS
    # backend in THIS project's state directory); the body of _get_state_path is verified against it
    b_ = B.fresh("b")
    f_bwd, f_bname = eng.const_fn("Backend", "working_dir", vc.Path), eng.const_fn("Backend", "name", vc.Name)
    eng.axiom("statepath", z3.ForAll([b_], vc.f_statepath(b_) == vc.f_join(
        vc.f_join(f_bwd(b_), vc.f_path_of_str(z3.StringVal(".gwf"))),
        vc.f_path_of_str(z3.Concat(eng.to_str(V(vc.Name, f_bname(b_))).z, z3.StringVal("-backend-tracked.json"))))))
    eng.contract("gwf.backends.base:TrackingBackend._get_state_path", self_type=B, params={"self": B},
                 returns=vc.Path, returns_expr="StatePath(self)", pure=True, uses=["statepath"], serves=["C08", "C09"])
    # the tracked-jobs table feeds the scheduling decision of every later invocation: C02 / C05 / C06 histories too
    S89 = ["C08", "C09", "C02", "C05", "C06"]
    eng.contract("gwf.backends.base:TrackingBackend._init_tracked", self_type=B, params={"self": B},
                 returns=vc.TrackedT,
                 ensures=["implies(StatePath(self) in disk_exists, dict_eq(result, disk_tracked[StatePath(self)]))",
                          "implies(StatePath(self) not in disk_exists, dom(result) == NoNames)"],
                 raises={"json.JSONDecodeError": "StatePath(self) in disk_exists and StatePath(self) not in disk_valid"},
                 serves=S89, note="C08: ids are those written by the previous close(); C09: an unreadable file is the "
                                  "only way this raises")
    eng.contract("gwf.backends.base:TrackingBackend._init_status", self_type=B, params={"self": B},
                 returns=vc.JobStatesT, raises={"BackendError": "True"}, serves=S89)
    eng.contract("gwf.backends.base:TrackingBackend.status", self_type=B, params={"self": B, "target": vc.Target},
                 returns=vc.BStatus, returns_expr="BStat(self, target)",      # C08
                 serves=["C08", "C02", "C05"])
    TRACK = ["self._tracked_jobs", "self._job_states"]
    SUBMIT_POST = [
        # C08/C09: the accepted id is tracked for exactly this target name; nothing else changes
        "target.name in self._tracked_jobs", "self._tracked_jobs[target.name] in sched_accepted",
        "self._tracked_jobs[target.name] not in old(sched_accepted)",
        "sched_target[self._tracked_jobs[target.name]] == target",
        # (from the scheduler assumption) the new id is not one that was tracked or known before
        "all(old(self._tracked_jobs)[k] != self._tracked_jobs[target.name] for k in old(self._tracked_jobs))",
        "self._tracked_jobs[target.name] not in old(self._job_states)",
        "forall(lambda k: implies(k != target.name, (k in self._tracked_jobs) == (k in old(self._tracked_jobs)) and "
        "implies(k in self._tracked_jobs, self._tracked_jobs[k] == old(self._tracked_jobs)[k])), Name)",
        "self._job_states[self._tracked_jobs[target.name]] == BackendStatus.SUBMITTED",
        "forall(lambda j: implies(j != self._tracked_jobs[target.name], (j in self._job_states) == "
        "(j in old(self._job_states)) and implies(j in self._job_states, self._job_states[j] == "
        "old(self._job_states)[j])), JobId)",
        # C07: the scheduler was told to hold the job on exactly the ids tracked for the given dependencies
        "sched_deps[self._tracked_jobs[target.name]] == "
        "setof(lambda j: any(old(self._tracked_jobs)[d.name] == j for d in dependencies), JobId)",
        "forall(lambda j: (j in sched_accepted) == (j in old(sched_accepted) or j == self._tracked_jobs[target.name]), JobId)",
    ]
    eng.contract(
        "gwf.backends.base:TrackingBackend.submit", self_type=B,
        params={"self": B, "target": vc.Target, "dependencies": LT},
        requires=["self == the_backend", "all(d.name in self._tracked_jobs for d in dependencies)"],
        modifies=TRACK + SCHED + LOGP + ["ghost:log_deps"],
        ghost_exit=[("log_deps", "store(log_deps, target, elems(dependencies))")],
        ensures=SUBMIT_POST + [
            "forall(lambda u: (u in log_pos) == (u in old(log_pos) or u == target), Target)",
            "log_pos[target] == old(log_n)", "log_n == old(log_n) + 1",
            "all(log_pos[u] == old(log_pos)[u] for u in old(dom(log_pos)) if u != target)",
            "log_deps == store(old(log_deps), target, elems(dependencies))"],
        # C09: a rejected submission leaves no trace
        raises={"BackendError": {"cond": "True", "modifies": []}},
        serves=["C07", "C08", "C09", "C02"])
    eng.contract("gwf.backends.base:TrackingBackend.cancel", self_type=B, params={"self": B, "target": vc.Target},
                 modifies=["ghost:sched_cancelled"],
                 # C17: the job cancelled is the latest one tracked for the target, and only that one
                 ensures=["target.name in self._tracked_jobs",
                          "forall(lambda j: (j in sched_cancelled) == (j in old(sched_cancelled) or "
                          "j == self._tracked_jobs[target.name]), JobId)"],
                 raises={"TargetError": {"cond": "target.name not in self._tracked_jobs", "modifies": []},
                         "BackendError": {"cond": "True", "modifies": []}},
                 serves=["C17"])
    DISK = ["ghost:disk_exists", "ghost:disk_valid", "ghost:disk_tracked"]
    CLOSE_ENS = ["StatePath(self) in disk_exists", "StatePath(self) in disk_valid",
                 "dict_eq(disk_tracked[StatePath(self)], self._tracked_jobs)",    # C08/C09: accepted ids are durable
                 "forall(lambda p: implies(p != StatePath(self), (p in disk_exists) == (p in old(disk_exists)) and "
                 "(p in disk_valid) == (p in old(disk_valid)) and disk_tracked[p] == old(disk_tracked)[p]), Path)"]
    # C09: even when the scheduler connection fails at close, the accepted ids are written
    CLOSE_EXC = {"OSError": {"cond": "True", "ensures": CLOSE_ENS}}
    eng.contract("gwf.backends.base:TrackingBackend.close", self_type=B, params={"self": B}, modifies=DISK,
                 ensures=CLOSE_ENS, raises=CLOSE_EXC, serves=S89)
    eng.contract("gwf.backends.base:TrackingBackend.__enter__", self_type=B, params={"self": B}, returns=B,
                 returns_expr="self", serves=["C09"])
    eng.contract("gwf.backends.base:TrackingBackend.__exit__", self_type=B, params={"self": B, "exc": T.NONE},
                 modifies=DISK, ensures=CLOSE_ENS, raises=CLOSE_EXC, serves=["C09"])


"""Contracts for gwf.conf (C20) and the configuration-related vocabulary."""
import z3
from pyvc import ty as T
from pyvc.core import Loop, V, Exc, Unsupported
from pyvc.rules import ItemsT


class ChainT(T.DictT):
    """collections.ChainMap(user, CONFIG_DEFAULTS): the value is the user map (maps[0]); look-ups fall
    through to the concrete defaults; writes and deletes act on the user map only (stdlib semantics)."""

    def __init__(self, key, val, defaults):
        super().__init__(key, val)
        self.defaults = defaults          # concrete python dict (read from the module under check)
        self.name = "Chain_" + self.name
        self.plain = T.DictT(key, val)

    def sort(self):
        return self.plain.sort()

    def mk(self, dom, val):
        return self.plain.mk(dom, val)

    def dom(self, z):
        return self.plain.dom(z)

    def vals(self, z):
        return self.plain.vals(z)


def install(eng):
    import gwf.conf
    vc = eng.vc
    # ---- configuration values: int | bool | str
    CV = z3.Datatype("ConfVal")
    CV.declare("cv_int", ("cv_i", z3.IntSort()))
    CV.declare("cv_bool", ("cv_b", z3.BoolSort()))
    CV.declare("cv_str", ("cv_s", z3.StringSort()))
    CV.declare("cv_none")      # Python None where a value was expected (never produced by a correct conversion)
    CV = CV.create()
    vc.ConfValS = CV
    vc.ConfVal = T.DataT("ConfVal", CV)
    eng.truthy_hooks["ConfVal"] = lambda e, v: z3.If(CV.is_cv_int(v.z), CV.cv_i(v.z) != 0,
                                                     z3.If(CV.is_cv_bool(v.z), CV.cv_b(v.z), z3.Length(CV.cv_s(v.z)) > 0))
    eng.coerce_hooks[("Int", "ConfVal")] = lambda e, v: V(vc.ConfVal, CV.cv_int(v.z))
    eng.coerce_hooks[("Bool", "ConfVal")] = lambda e, v: V(vc.ConfVal, CV.cv_bool(v.z))
    eng.coerce_hooks[("Str", "ConfVal")] = lambda e, v: V(vc.ConfVal, CV.cv_str(v.z))
    OI, OB = T.Opt(T.INT), T.Opt(T.BOOL)
    eng.coerce_hooks[(OI.name, "ConfVal")] = lambda e, v: V(vc.ConfVal, z3.If(OI.is_none(v.z), CV.cv_none, CV.cv_int(OI.get(v.z))))
    eng.coerce_hooks[(OB.name, "ConfVal")] = lambda e, v: V(vc.ConfVal, z3.If(OB.is_none(v.z), CV.cv_none, CV.cv_bool(OB.get(v.z))))
    eng.coerce_hooks[("None", "ConfVal")] = lambda e, v: V(vc.ConfVal, CV.cv_none)
    _lift = eng.lift

    def lift_conf(obj, want=None):
        if want is vc.ConfVal and isinstance(obj, (bool, int, str)):
            return eng.coerce(_lift(obj), vc.ConfVal)
        return _lift(obj, want)

    eng.lift = lift_conf
    OCV = T.Opt(vc.ConfVal)

    # ---- int(text): canonical decimal text is parsed exactly; other accepted spellings are left open
    digits = z3.Plus(z3.Range("0", "9"))
    canon_re = z3.Union(z3.Re("0"), z3.Concat(z3.Range("1", "9"), z3.Star(z3.Range("0", "9"))))
    f_rejects = z3.Function("int_rejects", z3.StringSort(), z3.BoolSort())     # int() raises ValueError
    f_intof = z3.Function("int_of", z3.StringSort(), z3.IntSort())             # value for non-canonical spellings
    vc.f_int_rejects, vc.f_int_of = f_rejects, f_intof
    for w in ("true", "yes", "false", "no"):
        eng.axioms.append(f_rejects(z3.StringVal(w)))     # int("true") raises ValueError (CPython)

    def canonical(s):
        neg = z3.And(z3.PrefixOf(z3.StringVal("-"), s), z3.InRe(z3.SubString(s, 1, z3.Length(s) - 1), canon_re),
                     s != z3.StringVal("-0"))
        return z3.Or(z3.InRe(s, canon_re), neg)

    def canon_value(s):
        return z3.If(z3.PrefixOf(z3.StringVal("-"), s), -z3.StrToInt(z3.SubString(s, 1, z3.Length(s) - 1)),
                     z3.StrToInt(s))

    vc.canonical_int, vc.canonical_int_value = canonical, canon_value
    eng.fn("CanonicalInt")(lambda e, st, s: V(T.BOOL, canonical(s.z)))
    eng.fn("CanonicalIntValue")(lambda e, st, s: V(T.INT, canon_value(s.z)))
    eng.fn("IntRejects")(lambda e, st, s: V(T.BOOL, f_rejects(s.z)))
    eng.fn("IntOf")(lambda e, st, s: V(T.INT, f_intof(s.z)))

    def r_int(e, args, kw, st, sink, n):
        (x,) = args
        if x.ty is T.INT:
            yield st, x
            return
        if x.ty is T.PY and isinstance(x.z, (int, str)):
            try:
                yield st, e.lift(int(x.z))
            except ValueError:
                sink.append((st, Exc(ValueError)))
            return
        if x.ty is not T.STR:
            raise Unsupported(f"int() of {x.ty}", n)
        s = x.z
        can = canonical(s)
        rej = z3.And(z3.Not(can), f_rejects(s))
        if e.feasible(st, rej):
            sink.append((st.assume(rej), Exc(ValueError)))
        if e.feasible(st, can):
            yield st.assume(can), V(T.INT, canon_value(s))
        oth = z3.And(z3.Not(can), z3.Not(f_rejects(s)))
        if e.feasible(st, oth):
            yield st.assume(oth), V(T.INT, f_intof(s))

    eng.rules[int] = r_int

    # ---- conversion oracle, from C20's statement
    def conv(s):
        """integers and yes/no/true/false coerced, everything else kept as text"""
        t, y, f, no = (z3.StringVal(w) for w in ("true", "yes", "false", "no"))
        return z3.If(canonical(s), CV.cv_int(canon_value(s)),
               z3.If(z3.And(z3.Not(f_rejects(s))), CV.cv_int(f_intof(s)),
               z3.If(z3.Or(s == t, s == y), CV.cv_bool(True),
               z3.If(z3.Or(s == f, s == no), CV.cv_bool(False), CV.cv_str(s)))))

    vc.conv = conv
    eng.fn("Conv")(lambda e, st, s: V(vc.ConfVal, conv(s.z)))
    S = ["C20"]
    eng.contract("gwf.conf:try_int", params={"value": T.STR}, returns=T.Opt(T.INT),
                 ensures=["implies(CanonicalInt(value), result is not None and the(result) == CanonicalIntValue(value))",
                          "implies(not CanonicalInt(value) and IntRejects(value), result is None)",
                          "implies(not CanonicalInt(value) and not IntRejects(value), result is not None and "
                          "the(result) == IntOf(value))"], serves=S)
    eng.contract("gwf.conf:try_true", params={"value": T.STR}, returns=T.Opt(T.BOOL),
                 ensures=["(result is not None) == (value == 'true' or value == 'yes')",
                          "implies(result is not None, the(result))"], serves=S)
    eng.contract("gwf.conf:try_false", params={"value": T.STR}, returns=T.Opt(T.BOOL),
                 ensures=["(result is not None) == (value == 'false' or value == 'no')",
                          "implies(result is not None, not the(result))"], serves=S)
    eng.contract("gwf.conf:try_conv", params={"value": T.STR, "converters": V(T.PY, gwf.conf.CONVERTERS)},
                 returns=vc.ConfVal, requires=[], ensures=["result == Conv(value)"], serves=S,
                 note="verified for the module's CONVERTERS tuple as it stands in the source (read at check time)")

    # ---- FileConfig over ChainMap(user, CONFIG_DEFAULTS)
    CH = ChainT(T.STR, vc.ConfVal, gwf.conf.CONFIG_DEFAULTS)
    vc.ChainT = CH
    UD = T.DictT(T.STR, vc.ConfVal)
    vc.UserConf = UD
    vc.disk_map("disk_conf", UD)
    FC = T.ObjT("FileConfig")
    vc.FileConfig = FC
    eng.cls("FileConfig", pyname="gwf.conf:FileConfig", fields={"data": CH}, consts={"path": vc.Path})
    eng.universe("Str", T.STR)

    def dflt(k):
        """defaults table lookup as a term: (present, value)"""
        items = list(gwf.conf.CONFIG_DEFAULTS.items())
        present = z3.Or(*[k == z3.StringVal(a) for a, _ in items]) if items else z3.BoolVal(False)
        val = CV.cv_str(z3.StringVal(""))
        for a, b in reversed(items):
            val = z3.If(k == z3.StringVal(a), eng.coerce(_lift(b), vc.ConfVal).z, val)
        return present, val

    vc.conf_default = dflt

    def chain_subscript(e, base, idx, st, sink, n):
        k = e.coerce(idx, T.STR, n).z
        inu = z3.Select(CH.dom(base.z), k)
        dp, dv = dflt(k)
        missing = z3.And(z3.Not(inu), z3.Not(dp))
        if st.mode != "spec" and e.feasible(st, missing):
            sink.append((st.assume(missing), Exc(KeyError)))
        yield (st.assume(z3.Not(missing)) if st.mode != "spec" else st), \
            V(vc.ConfVal, z3.If(inu, z3.Select(CH.vals(base.z), k), dv))

    def chain_contains(e, coll, x):
        k = e.coerce(x, T.STR).z
        return z3.Or(z3.Select(CH.dom(coll.z), k), dflt(k)[0])

    def chain_delitem(e, base, idx, st, sink, n):
        # ChainMap.__delitem__: deletes from maps[0]; KeyError when the key is not in the FIRST mapping
        k = e.coerce(idx, T.STR, n).z
        inu = z3.Select(CH.dom(base.z), k)
        if e.feasible(st, z3.Not(inu)):
            sink.append((st.assume(z3.Not(inu)), Exc(KeyError)))
        nb = V(CH, CH.mk(z3.Store(CH.dom(base.z), k, False), CH.vals(base.z)))
        return [e.write_back(n.value, st.assume(inu), nb, sink)]

    eng.subscript_hooks[CH.name] = chain_subscript
    eng.contains_hooks[CH.name] = chain_contains
    eng.delitem_hooks[CH.name] = chain_delitem

    def merged(z):
        k = z3.FreshConst(z3.StringSort(), "k")
        return UD.mk(z3.Lambda([k], z3.Or(z3.Select(CH.dom(z), k), dflt(k)[0])),
                     z3.Lambda([k], z3.If(z3.Select(CH.dom(z), k), z3.Select(CH.vals(z), k), dflt(k)[1])))

    eng.fn("Merged")(lambda e, st, d: V(UD, merged(d.z)))
    eng.fn("UserMap")(lambda e, st, d: V(UD, d.z))
    eng.method_rules[(CH.name, "items")] = lambda e, bb, a, kw, st, sink, n: iter([(st, V(ItemsT(UD), merged(bb.recv.z)))])
    eng.attr_hooks[(CH.name, "maps")] = lambda e, base, st: V(T.PY, ("pytuple", (V(UD, base.z),)))

    SAMEUSER = "dict_eq(UserMap(self.data), old(UserMap(self.data)))"
    eng.contract("gwf.conf:FileConfig.get", self_type=FC,
                 params={"self": FC, "key": T.STR, "default": OCV}, returns=OCV,
                 # C20 precedence: project configuration over built-in default over the caller's default
                 ensures=["implies(key in UserMap(self.data), result is not None and the(result) == UserMap(self.data)[key])",
                          "implies(key in self.data, result is not None and the(result) == self.data[key])",
                          "implies(key not in self.data, result == default)", SAMEUSER], serves=S)
    eng.contract("gwf.conf:FileConfig.__getitem__", self_type=FC, params={"self": FC, "key": T.STR},
                 returns=vc.ConfVal, ensures=["result == self.data[key]", SAMEUSER],
                 raises={"KeyError": "key not in self.data"}, serves=S)
    OTHERKEYS = ("forall(lambda k: implies(k != key, (k in UserMap(self.data)) == (k in old(UserMap(self.data))) and "
                 "implies(k in UserMap(self.data), UserMap(self.data)[k] == old(UserMap(self.data))[k])), Str)")
    eng.contract("gwf.conf:FileConfig.__setitem__", self_type=FC, params={"self": FC, "key": T.STR, "value": T.STR},
                 modifies=["self.data"],
                 ensures=["key in UserMap(self.data)", "UserMap(self.data)[key] == Conv(value)", OTHERKEYS], serves=S)
    eng.contract("gwf.conf:FileConfig.__delitem__", self_type=FC, params={"self": FC, "key": T.STR},
                 modifies=["self.data"],
                 # C20: unset removes only that key and is harmless for keys that are not set -> no exception at all
                 ensures=["key not in UserMap(self.data)", OTHERKEYS], serves=S)
    eng.contract("gwf.conf:FileConfig.items", self_type=FC, params={"self": FC}, returns=ItemsT(UD),
                 returns_expr="Merged(self.data)", pure=True, serves=S)
    DISKC = ["ghost:disk_exists", "ghost:disk_valid", "ghost:disk_conf"]
    eng.contract("gwf.conf:FileConfig.dump", self_type=FC, params={"self": FC}, modifies=DISKC,
                 ensures=["self.path in disk_exists", "self.path in disk_valid",
                          "dict_eq(disk_conf[self.path], UserMap(self.data))",      # only user-set keys reach the file
                          "forall(lambda p: implies(p != self.path, (p in disk_exists) == (p in old(disk_exists)) and "
                          "(p in disk_valid) == (p in old(disk_valid)) and disk_conf[p] == old(disk_conf)[p]), Path)"],
                 serves=S)
    # ---- get_namespace: two-level string proof (opaque InNs / NsKey, revealed only at the cut)
    f_inns = z3.Function("InNs", z3.StringSort(), z3.StringSort(), z3.BoolSort())
    f_nskey = z3.Function("NsKey", z3.StringSort(), z3.StringSort(), z3.StringSort())
    dot = z3.StringVal(".")
    # definitions, from the statement: "the backend.<name>.* settings": keys that start with ns + "."
    eng.opaque("InNs", f_inns, T.BOOL, lambda a, b: z3.PrefixOf(z3.Concat(a, dot), b))
    eng.opaque("NsKey", f_nskey, T.STR, lambda a, b: z3.SubString(b, z3.Length(a) + 1, z3.Length(b)))
    eng.contract(
        "gwf.conf:FileConfig.get_namespace", self_type=FC, params={"self": FC, "ns": T.STR}, returns=UD,
        locals={"res": UD},
        ensures=["forall(lambda j: (j in result) == any(InNs(ns, k) and NsKey(ns, k) == j for k in Merged(self.data)), Str)",
                 "all(any(InNs(ns, k) and NsKey(ns, k) == j and result[j] == Merged(self.data)[k] "
                 "for k in Merged(self.data)) for j in result)", SAMEUSER],
        loops={1: Loop(seen="sn", inv=[
            "forall(lambda j: (j in res) == any(InNs(ns, k) and NsKey(ns, k) == j for k in sn), Str)",
            "all(any(InNs(ns, k) and NsKey(ns, k) == j and res[j] == Merged(self.data)[k] for k in sn) for j in res)"])},
        cuts=[{"at": ("If", 1), "reveal": ["InNs", "NsKey"],
               "prove": ["cond == InNs(ns, k)", "implies(InNs(ns, k), k[len(ns) + 1:] == NsKey(ns, k))"]}],
        serves=S)

    # ================================================================== create_backend (C20: "reaches the selected backend")
    # The body of gwf.backends.base.create_backend is verified under its own key: the keyword arguments the selected
    # backend's factory receives are EXACTLY the backend.<name>.* settings of the configuration (nothing dropped,
    # nothing added) and the working directory is passed on. Model: discover_backends() is a registry whose entry for a
    # name is (factory, priority); calling the factory records its arguments in two ghosts.
    import ast as _ast
    import gwf.backends.base as GB
    from pyvc.core import FunV
    BN = T.Atom("BackendName")
    eng.ghost("ctor_wd", eng.vc.Path)
    eng.ghost("ctor_kwargs", UD)
    eng.ghost("ctor_name", BN)
    RegT = T.Atom("BackendRegistry")
    f_factory_of = z3.Function("factory_of", BN.sort(), BN.sort())          # identity tag: which backend a factory belongs to
    eng.rules[GB.discover_backends] = lambda e, args, kw, st, sink, n: iter([(st, V(RegT, z3.Const("the_registry", RegT.sort())))])
    eng.contract("ext:backend_factory", params={"working_dir": eng.vc.Path, "kwargs": UD}, returns=eng.vc.Backend,
                 trusted=True, modifies=["ghost:ctor_wd", "ghost:ctor_kwargs"],
                 ensures=["ctor_wd == working_dir", "dict_eq(ctor_kwargs, kwargs)"],
                 raises={"BackendError": {"cond": "True", "modifies": []}},
                 note="the backend module's create_backend(working_dir, **options): external to this contract")

    def registry_subscript(e, base, idx, st, sink, n):
        name = e.coerce(idx, BN, n)
        st = st.set_ghost("ctor_name", name)
        fac = V(T.FUN, FunV("contract", key="ext:backend_factory", self_v=None, name="backend_cls"))
        prio, st = e.fresh(T.INT, "priority", st)
        yield st, e.mk_tuple([fac, prio])

    eng.subscript_hooks[RegT.name] = registry_subscript

    def factory_unpack(e, f, n, st, sink):
        # backend_cls(working_dir=..., **backend_args)
        if n.args or len([k for k in n.keywords if k.arg is None]) != 1 or \
                [k.arg for k in n.keywords if k.arg is not None] != ["working_dir"]:
            raise Unsupported("backend factory call form", n)
        wd_node = [k.value for k in n.keywords if k.arg == "working_dir"][0]
        kw_node = [k.value for k in n.keywords if k.arg is None][0]
        for st1, wd in e.evx(wd_node, st, sink):
            for st2, kwv in e.evx(kw_node, st1, sink):
                yield from e.call_contract(eng.contracts["ext:backend_factory"],
                                           [e.coerce(wd, eng.vc.Path, n), e.coerce(kwv, UD, n)], {}, st2, sink, n)

    eng.unpack_hooks["ext:backend_factory"] = factory_unpack
    eng.str_hooks.setdefault("BackendName", lambda e, v: V(T.STR, z3.Function("backend_name_text", BN.sort(), z3.StringSort())(v.z)))
    eng.contract(
        "gwf.backends.base:create_backend/body", body_of="gwf.backends.base:create_backend",
        params={"name": BN, "working_dir": eng.vc.Path, "config": FC}, returns=eng.vc.Backend,
        modifies=["ghost:ctor_wd", "ghost:ctor_kwargs", "ghost:ctor_name"],
        ensures=["ctor_name == name", "ctor_wd == working_dir",
                 # exactly the backend.<name>.* settings, whatever their values (False and 0 included)
                 "forall(lambda j: (j in ctor_kwargs) == any(InNs('backend.' + str(name), k) and NsKey('backend.' + str(name), k) == j "
                 "for k in Merged(config.data)), Str)",
                 "all(any(InNs('backend.' + str(name), k) and NsKey('backend.' + str(name), k) == j and "
                 "ctor_kwargs[j] == Merged(config.data)[k] for k in Merged(config.data)) for j in ctor_kwargs)"],
        raises={"BackendError": {"cond": "True", "modifies": ["ghost:ctor_name"]}},
        serves=["C20"])

"""C19: `gwf.utils:find_workflow` — the upward search for the workflow file, under a deductive contract.

The search is specified by the tail-recursive spec functions

    Fails(d, p)  = False                      if Exists(PathJoin(d, p))
                 = True                       if d is the root of its anchor
                 = Fails(Parent(d), p)        otherwise
    Found(d, p)  = PathJoin(d, p)             if Exists(PathJoin(d, p))
                 = Found(Parent(d), p)        otherwise (and d is not the root)

(unfolding axioms with explicit triggers; a tail-recursive equation has a solution on every structure, so the axioms
are consistent without assuming that the parent chain ends). The loop invariant is "the search from the current
directory has the same answer as the search from the invoking directory"; the postcondition is `result[0] ==
Found(Cwd, p)` / raises FileNotFoundError iff `Fails(Cwd, p)`. The clause of C19 "invoking gwf from a subdirectory
gives the same workflow" is then the lemma `find-workflow-from-subdirectory` over these definitions: one step of it is
discharged by z3, any depth follows by induction on the number of steps (meta-step, as lean/Meta.lean's nat
induction). pathlib (joinpath / parent / anchor / exists / is_absolute / cwd) and str.partition are uninterpreted
library functions (trusted)."""
import pathlib

import z3
from pyvc import ty as T
from pyvc.core import V, Loop


def install(eng):
    FP = T.ObjT("FsPath")
    eng.cls("FsPath", consts={"parent": FP, "anchor": T.STR})
    S = FP.sort()
    f_parent = eng.const_fn("FsPath", "parent", FP)
    f_anchor = eng.const_fn("FsPath", "anchor", T.STR)
    f_of = z3.Function("FsPath.of", z3.StringSort(), S)
    f_join = z3.Function("FsPath.join", S, S, S)
    f_exists = z3.Function("FsPath.exists", S, z3.BoolSort())
    f_abs = z3.Function("FsPath.is_absolute", S, z3.BoolSort())
    f_fails = z3.Function("FindFails", S, S, z3.BoolSort())
    f_found = z3.Function("FindFound", S, S, S)
    f_head = z3.Function("str.partition_head", z3.StringSort(), z3.StringSort())
    f_tail = z3.Function("str.partition_tail", z3.StringSort(), z3.StringSort())
    f_sep = z3.Function("str.partition_sep", z3.StringSort(), z3.StringSort())
    cwd = z3.Const("the_cwd", S)

    def is_root(d):
        return d == f_of(f_anchor(d))

    d, p = z3.Consts("fw_d fw_p", S)
    here = f_exists(f_join(d, p))
    eng.axiom("findwf", z3.ForAll([d, p], f_fails(d, p) == z3.If(here, False, z3.If(is_root(d), True, f_fails(f_parent(d), p))),
                                patterns=[f_fails(d, p)]))
    eng.axiom("findwf", z3.ForAll([d, p], z3.Implies(z3.Or(here, z3.Not(is_root(d))),
                                                   f_found(d, p) == z3.If(here, f_join(d, p), f_found(f_parent(d), p))),
                                patterns=[f_found(d, p)]))

    eng.fn("Cwd")(lambda e, st: V(FP, cwd))
    eng.fn("PathOfText")(lambda e, st, s: V(FP, f_of(s.z)))
    eng.fn("PathJoin")(lambda e, st, a, b: V(FP, f_join(a.z, b.z)))
    eng.fn("Exists")(lambda e, st, a: V(T.BOOL, f_exists(a.z)))
    eng.fn("IsAbsolute")(lambda e, st, a: V(T.BOOL, f_abs(a.z)))
    eng.fn("IsRoot")(lambda e, st, a: V(T.BOOL, is_root(a.z)))
    eng.fn("FindFails")(lambda e, st, a, b: V(T.BOOL, f_fails(a.z, b.z)))
    eng.fn("FindFound")(lambda e, st, a, b: V(FP, f_found(a.z, b.z)))
    eng.fn("PartHead")(lambda e, st, s: V(T.STR, f_head(s.z)))
    eng.fn("PartTail")(lambda e, st, s: V(T.STR, f_tail(s.z)))

    # ---- library rules
    def m_partition(e, bb, args, kw, st, sink, n):
        s = bb.recv.z
        yield st, V(T.PY, ("pytuple", (V(T.STR, f_head(s)), V(T.STR, f_sep(s)), V(T.STR, f_tail(s)))))

    eng.method_rules[("Str", "partition")] = m_partition
    prev = eng.rules.get(pathlib.Path)

    def r_path(e, args, kw, st, sink, n):
        if len(args) == 1 and args[0].ty is T.STR:
            return iter([(st, V(FP, f_of(args[0].z)))])
        if prev is None:
            from pyvc.core import Unsupported
            raise Unsupported("pathlib.Path of a non-string", n)
        return prev(e, args, kw, st, sink, n)

    eng.rules[pathlib.Path] = r_path
    eng.rules[pathlib.Path.cwd] = lambda e, args, kw, st, sink, n: iter([(st, V(FP, cwd))])

    eng.contract("iface:FsPath.joinpath", self_type=FP, params={"self": FP, "other": FP}, returns=FP,
                 returns_expr="PathJoin(self, other)", trusted=True, pure=True)
    eng.contract("iface:FsPath.exists", self_type=FP, params={"self": FP}, returns=T.BOOL,
                 returns_expr="Exists(self)", trusted=True, pure=True)
    eng.contract("iface:FsPath.is_absolute", self_type=FP, params={"self": FP}, returns=T.BOOL,
                 returns_expr="IsAbsolute(self)", trusted=True, pure=True)

    P = "PathOfText(PartHead(path_spec))"
    eng.contract(
        "gwf.utils:find_workflow", params={"path_spec": T.STR}, returns=T.TupT(FP, T.STR),
        ensures=[
            # the object name after the colon, "gwf" when there is none
            "result[1] == (PartTail(path_spec) if len(PartTail(path_spec)) > 0 else 'gwf')",
            # an absolute path is taken as it is (joined to the invoking directory, which pathlib ignores)
            f"implies(IsAbsolute({P}), result[0] == PathJoin(Cwd(), {P}))",
            # a relative one is searched upwards from the invoking directory: the nearest ancestor that has it
            f"implies(not IsAbsolute({P}), result[0] == FindFound(Cwd(), {P}) and not FindFails(Cwd(), {P}))",
            f"implies(not IsAbsolute({P}), Exists(result[0]))",
        ],
        raises={"FileNotFoundError": {"cond": f"not IsAbsolute({P}) and FindFails(Cwd(), {P})", "modifies": []}},
        loops={1: Loop(inv=[
            "workflow_path == PathJoin(current_dir, path)",
            "FindFails(current_dir, path) == FindFails(Cwd(), path)",
            "implies(not FindFails(Cwd(), path), FindFound(current_dir, path) == FindFound(Cwd(), path))",
        ])},
        pure=True, serves=["C19"], uses=["findwf"],
        note="pathlib and str.partition uninterpreted; termination of the upward walk is not proved")

    # ---- C19: the same workflow file from a subdirectory (one step; any depth by induction on the steps)
    def build_sub(e):
        sub, q = z3.Consts("fw_sub fw_q", S)
        hyp = [z3.Not(f_exists(f_join(sub, q))), z3.Not(is_root(sub))]
        goal = z3.And(f_fails(sub, q) == f_fails(f_parent(sub), q),
                      z3.Implies(z3.Not(f_fails(f_parent(sub), q)), f_found(sub, q) == f_found(f_parent(sub), q)))
        yield "one-step", hyp, goal

    eng.lemmas["find-workflow-from-subdirectory"] = {"build": build_sub, "serves": ["C19"], "uses": ["findwf"], "file": "contracts/c_find.py"}

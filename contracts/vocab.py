"""Shared specification vocabulary (DESIGN.md section 3). Written from the property statements."""
import z3
from pyvc import ty as T
from pyvc.core import V
from pyvc.rules import DDictT


class Vocab:
    pass


def install(eng):
    import gwf.core
    import gwf.backends.base
    vc = Vocab()
    eng.vc = vc
    vc.Path = T.Atom("Path")          # a normalised absolute path (value of Canon)
    vc.Name = T.Atom("Name")          # a target name
    vc.Hash = T.Atom("Hash")          # sha1 hex digest
    vc.SpecText = T.Atom("SpecText")  # text of a target's spec
    vc.JobId = T.Atom("JobId")
    vc.Target = T.ObjT("Target")
    vc.Fs = T.ObjT("Fs")
    vc.Hashes = T.ObjT("SpecHashes")
    vc.Status = eng.enum_type(gwf.core.Status)
    vc.BStatus = eng.enum_type(gwf.backends.base.BackendStatus)
    for nm in ("Path", "Name", "Hash", "SpecText", "JobId", "Target"):
        eng.universe(nm, getattr(vc, nm))

    # ---- nested inputs/outputs values
    Tree = z3.Datatype("Tree")
    TreeList = z3.Datatype("TreeList")
    RawPath = z3.DeclareSort("RawPath")
    Tree.declare("leaf", ("raw", RawPath))
    Tree.declare("lst", ("lkids", TreeList))
    Tree.declare("dct", ("dkids", TreeList))
    TreeList.declare("tnil")
    TreeList.declare("tcons", ("thead", Tree), ("ttail", TreeList))
    Tree, TreeList = z3.CreateDatatypes(Tree, TreeList)
    vc.TreeS, vc.TreeListS, vc.RawPathS = Tree, TreeList, RawPath
    vc.Tree = T.DataT("Tree", Tree)
    vc.TreeList = T.DataT("TreeList", TreeList)
    vc.RawPath = T.Atom("RawPath")
    nleaves = z3.RecFunction("nleaves", Tree, z3.IntSort())
    nleavesL = z3.RecFunction("nleavesL", TreeList, z3.IntSort())
    tr, tl = z3.Const("tr", Tree), z3.Const("tl", TreeList)
    z3.RecAddDefinition(nleaves, [tr], z3.If(Tree.is_leaf(tr), z3.IntVal(1),
                                             z3.If(Tree.is_lst(tr), nleavesL(Tree.lkids(tr)), nleavesL(Tree.dkids(tr)))))
    z3.RecAddDefinition(nleavesL, [tl], z3.If(TreeList.is_tnil(tl), z3.IntVal(0),
                                              nleaves(TreeList.thead(tl)) + nleavesL(TreeList.ttail(tl))))
    vc.nleaves, vc.nleavesL = nleaves, nleavesL

    def tree_truthy(eng_, v):
        # leaf: a validated non-empty str or a PathLike object (truthy); list / dict: non-empty
        z = v.z
        return z3.If(Tree.is_leaf(z), z3.BoolVal(True),
                     z3.If(Tree.is_lst(z), z3.Not(TreeList.is_tnil(Tree.lkids(z))),
                           z3.Not(TreeList.is_tnil(Tree.dkids(z)))))

    eng.truthy_hooks["Tree"] = tree_truthy

    @eng.fn("nleaves")
    def _nleaves(e, st, t):
        return V(T.INT, nleaves(t.z))

    # ---- declared file sets (DESIGN 3): Outs/Ins/Prot are the Canon-images of the leaves
    PS = T.SetT(vc.Path)
    vc.PathSet = PS
    TS = T.SetT(vc.Target)
    vc.TargetSet = TS
    vc.f_Outs = z3.Function("Outs", vc.Target.sort(), PS.sort())
    vc.f_Ins = z3.Function("Ins", vc.Target.sort(), PS.sort())
    vc.f_Prot = z3.Function("Prot", vc.Target.sort(), PS.sort())
    for nm, f in (("Outs", vc.f_Outs), ("Ins", vc.f_Ins), ("Prot", vc.f_Prot)):
        eng.fn(nm)(lambda e, st, t, f=f: V(PS, f(t.z)))

    eng.cls("Target", pyname="gwf.core:Target",
            consts={"name": vc.Name, "spec": vc.SpecText, "inputs": vc.Tree, "outputs": vc.Tree,
                    "protect": vc.Tree, "working_dir": T.Atom("Dir"), "order": T.INT},
            fields={})
    t = vc.Target.fresh("t")
    outputs_of = eng.const_fn("Target", "outputs", vc.Tree)
    inputs_of = eng.const_fn("Target", "inputs", vc.Tree)
    emptyP = PS.empty()
    # a target's output set is empty iff its outputs value has no leaf (flattening is leaf-wise)
    eng.axiom("tree", z3.ForAll([t], (vc.f_Outs(t) == emptyP) == (nleaves(outputs_of(t)) == 0)))
    eng.axiom("tree", z3.ForAll([t], (vc.f_Ins(t) == emptyP) == (nleaves(inputs_of(t)) == 0)))

    # ---- file system snapshot (interface)
    eng.cls("Fs")
    vc.f_exists = z3.Function("fs_exists", vc.Fs.sort(), vc.Path.sort(), z3.BoolSort())
    vc.f_mtime = z3.Function("fs_mtime", vc.Fs.sort(), vc.Path.sort(), z3.RealSort())
    eng.fn("fs_exists")(lambda e, st, fs, p: V(T.BOOL, vc.f_exists(fs.z, p.z)))
    eng.fn("fs_mtime")(lambda e, st, fs, p: V(T.REAL, vc.f_mtime(fs.z, p.z)))
    fs, p = vc.Fs.fresh("fs"), vc.Path.fresh("p")
    # mtimes are finite reals (no NaN / inf): trusted, listed in every evidence file that uses it
    eng.axiom("fs", z3.ForAll([fs, p], z3.And(-eng.INF < vc.f_mtime(fs, p), vc.f_mtime(fs, p) < eng.INF)))

    # ---- spec hashes (interface level)
    eng.cls("SpecHashes")
    vc.f_changed = z3.Function("Changed", vc.Hashes.sort(), vc.Target.sort(), z3.BoolSort())
    eng.fn("Changed")(lambda e, st, H, t: V(T.BOOL, vc.f_changed(H.z, t.z)))

    def stale(fs, H, t):
        o, i = vc.Path.fresh("o"), vc.Path.fresh("i")
        outs, ins = vc.f_Outs(t), vc.f_Ins(t)
        return z3.Or(
            vc.f_changed(H, t),
            outs == emptyP,
            z3.Exists([o], z3.And(z3.Select(outs, o), z3.Not(vc.f_exists(fs, o)))),
            z3.Exists([i, o], z3.And(z3.Select(ins, i), z3.Select(outs, o), vc.f_mtime(fs, i) > vc.f_mtime(fs, o))))

    vc.stale = stale

    @eng.fn("Stale")
    def _stale(e, st, t, fs, H):
        return V(T.BOOL, stale(fs.z, H.z, t.z))

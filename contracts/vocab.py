"""Shared specification vocabulary (DESIGN.md section 3). Written from the property statements."""
import z3
from pyvc import ty as T
from pyvc.core import V, Unsupported
from pyvc.rules import DDictT


class Vocab:
    pass


def install(eng):
    import gwf.core
    import gwf.backends.base
    vc = Vocab()
    eng.vc = vc
    vc.Path = T.Atom("Path")          # a normalised absolute path (value of Canon)
    vc.Name = T.Atom("Name")          # a target name
    vc.Hash = T.Atom("Hash")          # sha1 hex digest
    vc.SpecText = T.Atom("SpecText")  # text of a target's spec
    vc.JobId = T.Atom("JobId")
    vc.Target = T.ObjT("Target")
    vc.Fs = T.ObjT("Fs")
    vc.Hashes = T.ObjT("SpecHashes")
    vc.Status = eng.enum_type(gwf.core.Status)
    vc.BStatus = eng.enum_type(gwf.backends.base.BackendStatus)
    for nm in ("Path", "Name", "Hash", "SpecText", "JobId", "Target"):
        eng.universe(nm, getattr(vc, nm))

    # ---- nested inputs/outputs values
    Tree = z3.Datatype("Tree")
    TreeList = z3.Datatype("TreeList")
    RawPath = vc.Path.sort()          # a leaf holds a path text (str or path object); same abstract sort as paths
    Tree.declare("leaf", ("raw", RawPath))
    Tree.declare("lst", ("lkids", TreeList))
    Tree.declare("dct", ("dkids", TreeList))
    TreeList.declare("tnil")
    TreeList.declare("tcons", ("thead", Tree), ("ttail", TreeList))
    Tree, TreeList = z3.CreateDatatypes(Tree, TreeList)
    vc.TreeS, vc.TreeListS, vc.RawPathS = Tree, TreeList, RawPath
    vc.Tree = T.DataT("Tree", Tree)
    vc.TreeList = T.DataT("TreeList", TreeList)
    vc.RawPath = vc.Path
    nleaves = z3.RecFunction("nleaves", Tree, z3.IntSort())
    nleavesL = z3.RecFunction("nleavesL", TreeList, z3.IntSort())
    tr, tl = z3.Const("tr", Tree), z3.Const("tl", TreeList)
    z3.RecAddDefinition(nleaves, [tr], z3.If(Tree.is_leaf(tr), z3.IntVal(1),
                                             z3.If(Tree.is_lst(tr), nleavesL(Tree.lkids(tr)), nleavesL(Tree.dkids(tr)))))
    z3.RecAddDefinition(nleavesL, [tl], z3.If(TreeList.is_tnil(tl), z3.IntVal(0),
                                              nleaves(TreeList.thead(tl)) + nleavesL(TreeList.ttail(tl))))
    vc.nleaves, vc.nleavesL = nleaves, nleavesL
    # membership of a path among the leaves (recursive over the datatype)
    # uninterpreted + unfolding axioms (group `leaves`): opaque wherever only "some leaf" matters
    inl = z3.Function("in_leaves", Tree, RawPath, z3.BoolSort())
    inlL = z3.Function("in_leavesL", TreeList, RawPath, z3.BoolSort())
    rp = z3.Const("rp", RawPath)
    eng.axiom("leaves", z3.ForAll([tr, rp], inl(tr, rp) == z3.If(Tree.is_leaf(tr), Tree.raw(tr) == rp,
                                  z3.If(Tree.is_lst(tr), inlL(Tree.lkids(tr), rp), inlL(Tree.dkids(tr), rp))),
                                  patterns=[inl(tr, rp)]))
    eng.axiom("leaves", z3.ForAll([tl, rp], inlL(tl, rp) == z3.If(TreeList.is_tnil(tl), z3.BoolVal(False),
                                  z3.Or(inl(TreeList.thead(tl), rp), inlL(TreeList.ttail(tl), rp))),
                                  patterns=[inlL(tl, rp)]))
    vc.in_leaves, vc.in_leavesL = inl, inlL
    vc.f_pathlike = z3.Function("is_pathlike", RawPath, z3.BoolSort())     # the leaf is an os.PathLike object, not a str

    def tree_truthy(eng_, v):
        # leaf: a validated non-empty str or a PathLike object (truthy); list / dict: non-empty
        z = v.z
        return z3.If(Tree.is_leaf(z), z3.BoolVal(True),
                     z3.If(Tree.is_lst(z), z3.Not(TreeList.is_tnil(Tree.lkids(z))),
                           z3.Not(TreeList.is_tnil(Tree.dkids(z)))))

    eng.truthy_hooks["Tree"] = tree_truthy
    eng.empty_hooks["Tree"] = lambda e: V(vc.Tree, Tree.lst(TreeList.tnil))      # an empty collection of paths

    @eng.fn("nleaves")
    def _nleaves(e, st, t):
        return V(T.INT, nleaves(t.z) if t.ty.name == "Tree" else nleavesL(t.z))

    @eng.fn("InLeaves")
    def _inleaves(e, st, t, p_):
        return V(T.BOOL, inl(t.z, p_.z) if t.ty.name == "Tree" else inlL(t.z, p_.z))

    # ---- declared file sets (DESIGN 3): Outs/Ins/Prot are the Canon-images of the leaves
    PS = T.SetT(vc.Path)
    vc.PathSet = PS
    TS = T.SetT(vc.Target)
    vc.TargetSet = TS
    vc.f_Outs = z3.Function("Outs", vc.Target.sort(), PS.sort())
    vc.f_Ins = z3.Function("Ins", vc.Target.sort(), PS.sort())
    vc.f_Prot = z3.Function("Prot", vc.Target.sort(), PS.sort())
    for nm, f in (("Outs", vc.f_Outs), ("Ins", vc.f_Ins), ("Prot", vc.f_Prot)):
        eng.fn(nm)(lambda e, st, t, f=f: V(PS, f(t.z)))

    eng.cls("Target", pyname="gwf.core:Target",
            consts={"name": vc.Name, "spec": vc.SpecText, "inputs": vc.Tree, "outputs": vc.Tree,
                    "protect": vc.Tree, "working_dir": vc.Path, "order": T.INT},
            fields={})
    t = vc.Target.fresh("t")
    outputs_of = eng.const_fn("Target", "outputs", vc.Tree)
    inputs_of = eng.const_fn("Target", "inputs", vc.Tree)
    emptyP = PS.empty()
    # a target's output set is empty iff its outputs value has no leaf (flattening is leaf-wise)
    eng.axiom("tree", z3.ForAll([t], (vc.f_Outs(t) == emptyP) == (nleaves(outputs_of(t)) == 0)))
    eng.axiom("tree", z3.ForAll([t], (vc.f_Ins(t) == emptyP) == (nleaves(inputs_of(t)) == 0)))

    # ---- file system snapshot (interface)
    eng.cls("Fs")
    vc.f_exists = z3.Function("fs_exists", vc.Fs.sort(), vc.Path.sort(), z3.BoolSort())
    vc.f_mtime = z3.Function("fs_mtime", vc.Fs.sort(), vc.Path.sort(), z3.RealSort())
    eng.fn("fs_exists")(lambda e, st, fs, p: V(T.BOOL, vc.f_exists(fs.z, p.z)))
    eng.fn("fs_mtime")(lambda e, st, fs, p: V(T.REAL, vc.f_mtime(fs.z, p.z)))
    fs, p = vc.Fs.fresh("fs"), vc.Path.fresh("p")
    # mtimes are finite reals (no NaN / inf): trusted, listed in every evidence file that uses it
    eng.axiom("fs", z3.ForAll([fs, p], z3.And(-eng.INF < vc.f_mtime(fs, p), vc.f_mtime(fs, p) < eng.INF)))

    # ---- spec hashes: one hierarchy (SpecHashes <- FileSpecHashes, NoopSpecHashes), concrete view
    eng.cls("SpecHashes", fields={"hashes": T.DictT(vc.Name, vc.Hash)}, consts={"is_file": T.BOOL, "path": vc.Path})
    eng.cls("FileSpecHashes", bases=["SpecHashes"], root="SpecHashes", pyname="gwf.core:FileSpecHashes")
    eng.cls("NoopSpecHashes", bases=["SpecHashes"], root="SpecHashes", pyname="gwf.core:NoopSpecHashes")
    vc.FileHashes = T.ObjT("FileSpecHashes", root="SpecHashes")
    vc.NoopHashes = T.ObjT("NoopSpecHashes", root="SpecHashes")
    vc.f_sha1 = z3.Function("Sha1", vc.SpecText.sort(), vc.Hash.sort())      # hashlib.sha1(...).hexdigest(): trusted
    eng.fn("Sha1")(lambda e, st, s_: V(vc.Hash, vc.f_sha1(s_.z)))
    # Sha1(spec) is by definition hashlib.sha1(spec.encode("utf-8")).hexdigest(): the three library steps are
    # uninterpreted functions, so hash_spec is verified to hash the whole text with exactly this pipeline
    import hashlib
    BytesT, ShaObjT = T.Atom("Bytes"), T.Atom("Sha1Obj")
    f_utf8 = z3.Function("utf8", vc.SpecText.sort(), BytesT.sort())
    f_shaobj = z3.Function("sha1", BytesT.sort(), ShaObjT.sort())
    f_hexd = z3.Function("hexdigest", ShaObjT.sort(), vc.Hash.sort())
    sx_ = vc.SpecText.fresh("s")
    eng.axioms.append(z3.ForAll([sx_], vc.f_sha1(sx_) == f_hexd(f_shaobj(f_utf8(sx_)))))

    def m_encode(e, bb, a, kw, st, sink, n):
        enc = a[0] if a else kw.get("encoding")
        if enc is not None and not (z3.is_string_value(enc.z) and enc.z.as_string().lower().replace("-", "") == "utf8"):
            raise Unsupported("spec.encode() with an encoding other than utf-8", n)
        yield st, V(BytesT, f_utf8(bb.recv.z))

    eng.method_rules[("SpecText", "encode")] = m_encode

    def r_sha1(e, args, kw, st, sink, n):
        if len(args) != 1 or args[0].ty != BytesT:
            raise Unsupported("hashlib.sha1 of something else than the encoded spec", n)
        yield st, V(ShaObjT, f_shaobj(args[0].z))

    eng.rules[hashlib.sha1] = r_sha1
    eng.method_rules[("Sha1Obj", "hexdigest")] = lambda e, bb, a, kw, st, sink, n: iter([(st, V(vc.Hash, f_hexd(bb.recv.z)))])
    HD = T.DictT(vc.Name, vc.Hash)
    f_isfile = eng.const_fn("SpecHashes", "is_file", T.BOOL)
    f_tname = eng.const_fn("Target", "name", vc.Name)
    f_tspec = eng.const_fn("Target", "spec", vc.SpecText)

    def changed(st, H, t):
        """C18: with hashing on, no record for the target's name or a record different from sha1(spec)"""
        h = z3.Select(st.heap[("SpecHashes", "hashes")], H)
        nm = f_tname(t)
        return z3.And(f_isfile(H), z3.Or(z3.Not(z3.Select(HD.dom(h), nm)),
                                         z3.Select(HD.vals(h), nm) != vc.f_sha1(f_tspec(t))))

    vc.changed = changed
    eng.fn("Changed")(lambda e, st, H, t: V(T.BOOL, changed(st, H.z, t.z)))

    def stale(st, fs, H, t):
        o, i = vc.Path.fresh("o"), vc.Path.fresh("i")
        outs, ins = vc.f_Outs(t), vc.f_Ins(t)
        return z3.Or(
            changed(st, H, t),
            outs == emptyP,
            z3.Exists([o], z3.And(z3.Select(outs, o), z3.Not(vc.f_exists(fs, o)))),
            z3.Exists([i, o], z3.And(z3.Select(ins, i), z3.Select(outs, o), vc.f_mtime(fs, i) > vc.f_mtime(fs, o))))

    vc.stale = stale

    @eng.fn("Stale")
    def _stale(e, st, t, fs, H):
        return V(T.BOOL, stale(st, fs.z, H.z, t.z))

    # ================================================================== graph / scheduling vocabulary
    from pyvc.engine import FnRef
    vc.Graph = T.ObjT("Graph")
    depdefault = lambda e: TS.empty()
    vc.DepsT = DDictT(vc.Target, TS, depdefault)
    eng.cls("Graph", pyname="gwf.core:Graph",
            fields={"dependencies": vc.DepsT, "dependents": DDictT(vc.Target, TS, depdefault),
                    "targets": T.DictT(vc.Name, vc.Target), "provides": T.DictT(vc.Path, vc.Target),
                    "unresolved": PS})
    eng.universe("Hashes", vc.Hashes)
    eng.spec_consts["Status"] = V(T.PY, gwf.core.Status)
    eng.spec_consts["BackendStatus"] = V(T.PY, gwf.backends.base.BackendStatus)

    def view(dd, t):  # dependency view of a defaultdict(set): missing key == empty set
        return z3.If(z3.Select(vc.DepsT.dom(dd), t), z3.Select(vc.DepsT.vals(dd), t), TS.empty())

    @eng.fn("DepsOf")
    def _depsof(e, st, g, t):
        dd = z3.Select(st.heap[("Graph", "dependencies")], g.z)
        return V(TS, view(dd, t.z))

    @eng.fn("DependentsOf")
    def _dependentsof(e, st, g, t):
        dd = z3.Select(st.heap[("Graph", "dependents")], g.z)
        return V(TS, view(dd, t.z))

    # immutable per-run functions used by the oracle Spec (DESIGN 3). They are uninterpreted: a proof
    # holds for every graph, every backend answer and every file state.
    vc.f_deps0 = z3.Function("deps0", vc.Target.sort(), TS.sort())
    vc.f_bstat0 = z3.Function("bstat0", vc.Target.sort(), vc.BStatus.sort())
    vc.f_stale0 = z3.Function("stale0", vc.Target.sort(), z3.BoolSort())
    vc.f_SpecF = z3.Function("SpecF", vc.Target.sort(), vc.Status.sort())
    vc.f_X = z3.Function("X", vc.Target.sort(), z3.BoolSort())  # an ARBITRARY closed superset of the endpoints
    eng.fn("deps0")(lambda e, st, t: V(TS, vc.f_deps0(t.z)))
    eng.fn("bstat0")(lambda e, st, t: V(vc.BStatus, vc.f_bstat0(t.z)))
    eng.fn("stale0")(lambda e, st, t: V(T.BOOL, vc.f_stale0(t.z)))
    eng.fn("SpecF")(lambda e, st, t: V(vc.Status, vc.f_SpecF(t.z)))
    eng.fn("X")(lambda e, st, t: V(T.BOOL, vc.f_X(t.z)))
    S, B = vc.Status, vc.BStatus

    def needs(s):
        return z3.Or(s == S.const("SHOULDRUN"), s == S.const("FAILED"), s == S.const("CANCELLED"))

    vc.needs = needs
    eng.fn("Needs")(lambda e, st, s: V(T.BOOL, needs(e.coerce(s, S).z)))
    eng.spec_consts["NoTargets"] = V(TS, TS.empty())
    eng.spec_consts["NoPaths"] = V(PS, PS.empty())
    eng.spec_consts["NoNames"] = V(T.SetT(vc.Name), T.SetT(vc.Name).empty())

    u, d = vc.Target.fresh("u"), vc.Target.fresh("d")
    # Spec (DESIGN 3), from the statements of C01/C02: the backend's live/failed/cancelled answer wins,
    # else shouldrun iff stale or some direct dependency is not complete, else completed.
    notdone = z3.Exists([d], z3.And(z3.Select(vc.f_deps0(u), d), vc.f_SpecF(d) != S.const("COMPLETED")))
    unfold = z3.If(vc.f_bstat0(u) == B.const("SUBMITTED"), S.const("SUBMITTED"),
             z3.If(vc.f_bstat0(u) == B.const("RUNNING"), S.const("RUNNING"),
             z3.If(vc.f_bstat0(u) == B.const("FAILED"), S.const("FAILED"),
             z3.If(vc.f_bstat0(u) == B.const("CANCELLED"), S.const("CANCELLED"),
             z3.If(z3.Or(notdone, vc.f_stale0(u)), S.const("SHOULDRUN"), S.const("COMPLETED"))))))
    # definitional: SpecF exists and is unique by well-founded recursion over rank (lean/Meta.lean)
    eng.axiom("spec", z3.ForAll([u], vc.f_SpecF(u) == unfold))
    # X is closed under dependencies (it is an arbitrary such set: see c_scheduling)
    eng.axiom("cone", z3.ForAll([u, d], z3.Implies(z3.And(vc.f_X(u), z3.Select(vc.f_deps0(u), d)), vc.f_X(d))))

    # ghost submission log (DESIGN 3) and the backend's current answers
    eng.ghost("log_pos", T.DictT(vc.Target, T.INT))
    eng.ghost("log_deps", T.MapT(vc.Target, TS))
    eng.ghost("log_n", T.INT)
    # ---- the tracking backend (C07-C09): one class, parameterised by its scheduler operations
    vc.Backend = T.ObjT("Backend")
    vc.Ops = T.ObjT("Ops")
    vc.OptKey, vc.OptVal = T.Atom("OptKey"), T.Atom("OptVal")
    vc.Options = T.DictT(vc.OptKey, T.Opt(vc.OptVal))
    TJ, JS = T.DictT(vc.Name, vc.JobId), T.DictT(vc.JobId, vc.BStatus)
    vc.TrackedT, vc.JobStatesT = TJ, JS
    eng.cls("Ops", consts={"target_defaults": vc.Options, "working_dir": vc.Path})
    eng.cls("Backend", pyname="gwf.backends.base:TrackingBackend",
            fields={"_tracked_jobs": TJ, "_job_states": JS},
            consts={"working_dir": vc.Path, "name": vc.Name, "ops": vc.Ops, "target_defaults": vc.Options})
    eng.classes["Target"].fields["options"] = vc.Options
    eng.universe("Backend", vc.Backend)
    eng.universe("JobId", vc.JobId)
    vc.the_backend = z3.Const("the_backend", vc.Backend.sort())     # the backend object of this invocation
    eng.spec_consts["the_backend"] = V(vc.Backend, vc.the_backend)
    vc.dry_mode = z3.Const("dry_mode", z3.BoolSort())                # the submit callback in use does not submit
    eng.spec_consts["dry_mode"] = V(T.BOOL, vc.dry_mode)

    def bstat(st, b, t):
        """C08: the scheduler state of the job id tracked for the target's name, UNKNOWN when absent"""
        tj = z3.Select(st.heap[("Backend", "_tracked_jobs")], b)
        js = z3.Select(st.heap[("Backend", "_job_states")], b)
        nm = f_tname(t)
        jid = z3.Select(TJ.vals(tj), nm)
        return z3.If(z3.And(z3.Select(TJ.dom(tj), nm), z3.Select(JS.dom(js), jid)), z3.Select(JS.vals(js), jid),
                     B.const("UNKNOWN"))

    vc.bstat = bstat
    eng.fn("BStat")(lambda e, st, b, t: V(vc.BStatus, bstat(st, b.z, t.z)))
    eng.fn("BNow")(lambda e, st, t: V(vc.BStatus, bstat(st, vc.the_backend, t.z)))

    def tracked(st, b, t):
        tj = z3.Select(st.heap[("Backend", "_tracked_jobs")], b)
        return z3.Select(TJ.dom(tj), f_tname(t))

    # entry-state names used to say "a dry run / status changed nothing" (C05)
    vc.f_chg0 = z3.Function("chg0", vc.Hashes.sort(), vc.Target.sort(), z3.BoolSort())
    eng.fn("chg0")(lambda e, st, h, t: V(T.BOOL, vc.f_chg0(h.z, t.z)))
    vc.acc0 = z3.Const("acc0", z3.ArraySort(vc.JobId.sort(), z3.BoolSort()))
    eng.spec_consts["acc0"] = V(T.SetT(vc.JobId), vc.acc0)
    vc.trk0 = z3.Const("trk0", TJ.sort())
    eng.spec_consts["trk0"] = V(TJ, vc.trk0)
    eng.fn("Tracked")(lambda e, st, t: V(T.BOOL, tracked(st, vc.the_backend, t.z)))
    eng.fn("DepOK")(lambda e, st, t: V(T.BOOL, z3.Or(vc.dry_mode, tracked(st, vc.the_backend, t.z))))
    # interface view of a spec-hash store: the set of targets whose spec differs from the record
    vc.FnRef = FnRef

    # ================================================================== graph construction vocabulary
    NT = T.DictT(vc.Name, vc.Target)
    vc.NameTargets = NT
    eng.universe("Name", vc.Name)
    eng.universe("Graph", vc.Graph)

    def valset(d):
        k = vc.Name.fresh("k")
        y = vc.Target.fresh("y")
        return z3.Lambda([y], z3.Exists([k], z3.And(z3.Select(NT.dom(d), k), z3.Select(NT.vals(d), k) == y)))

    vc.valset = valset
    eng.fn("ValSet")(lambda e, st, d: V(TS, valset(d.z)))
    eng.fn("DepsOfD")(lambda e, st, dd, t: V(TS, view(dd.z, t.z)))
    vc.f_InT = z3.Function("InT", vc.Target.sort(), z3.BoolSort())   # "is a target of the workflow"
    eng.fn("InT")(lambda e, st, t: V(T.BOOL, vc.f_InT(t.z)))
    vc.f_Reach = z3.Function("Reach", vc.Target.sort(), vc.Target.sort(), z3.BoolSort())
    eng.fn("Reach")(lambda e, st, a, b: V(T.BOOL, vc.f_Reach(a.z, b.z)))
    a_, b_, c_ = vc.Target.fresh("a"), vc.Target.fresh("b"), vc.Target.fresh("c")
    # introduction rules only (they hold of the least relation closed under deps0)
    eng.axiom("reach", z3.ForAll([a_, b_], z3.Implies(z3.Select(vc.f_deps0(a_), b_), vc.f_Reach(a_, b_))))
    eng.axiom("reach", z3.ForAll([a_, b_, c_], z3.Implies(z3.And(vc.f_Reach(a_, b_), z3.Select(vc.f_deps0(b_), c_)),
                                                          vc.f_Reach(a_, c_))))

    # path-induced dependency relation (C03): b depends on a iff an input path of b is an output path of a
    def pathdep(b, a):
        p = vc.Path.fresh("p")
        return z3.And(vc.f_InT(a), vc.f_InT(b), z3.Exists([p], z3.And(z3.Select(vc.f_Ins(b), p), z3.Select(vc.f_Outs(a), p))))

    vc.pathdep = pathdep
    eng.fn("PathDep")(lambda e, st, b, a: V(T.BOOL, pathdep(b.z, a.z)))
    # DFS finishing times (ghost) double as the rank that witnesses acyclicity
    eng.ghost("fin", T.MapT(vc.Target, T.INT))
    eng.ghost("clock", T.INT)

    def rank_of(e, st, t):
        f = z3.Select(st.ghost["fin"].z, t.z)
        return V(T.INT, z3.If(f < 0, z3.IntVal(0), f))

    eng.vocab["rank"] = rank_of

    # ================================================================== os.path algebra (trusted stdlib)
    import os
    PT = vc.Path
    vc.f_join = z3.Function("os_join", PT.sort(), PT.sort(), PT.sort())
    vc.f_isabs = z3.Function("os_isabs", PT.sort(), z3.BoolSort())
    vc.f_abspath = z3.Function("os_abspath", PT.sort(), PT.sort())
    vc.f_normpath = z3.Function("os_normpath", PT.sort(), PT.sort())
    vc.cwd = z3.Const("os_cwd", PT.sort())
    w_, p_ = PT.fresh("w"), PT.fresh("p")
    eng.axiom("ospath", z3.ForAll([w_, p_], z3.Implies(vc.f_isabs(p_), vc.f_join(w_, p_) == p_)))
    eng.axiom("ospath", z3.ForAll([p_], vc.f_abspath(p_) ==
                                  vc.f_normpath(z3.If(vc.f_isabs(p_), p_, vc.f_join(vc.cwd, p_)))))
    eng.axiom("ospath", z3.ForAll([p_], vc.f_normpath(vc.f_normpath(p_)) == vc.f_normpath(p_)))
    # Canon (DESIGN 3): "resolved against the working directory and normalised"
    eng.fn("Canon")(lambda e, st, wd, p: V(PT, vc.f_abspath(vc.f_join(wd.z, p.z))))

    def rule1(f, arity):
        def rule(e, args, kw, st, sink, n):
            zs = [e.coerce(a, PT, n).z for a in args]
            if len(zs) != arity:
                from pyvc.core import Unsupported
                raise Unsupported("os.path call arity", n)
            r = f(*zs)
            yield st, V(T.BOOL if r.sort() == z3.BoolSort() else PT, r)
        return rule

    def r_join(e, args, kw, st, sink, n):
        zs = [e.coerce(a, PT, n).z for a in args]
        r = zs[0]
        for z in zs[1:]:
            r = vc.f_join(r, z)      # join(a, b, c) == join(join(a, b), c)
        yield st, V(PT, r)

    eng.rules[os.path.join] = r_join
    eng.rules[os.path.isabs] = rule1(vc.f_isabs, 1)
    eng.rules[os.path.abspath] = rule1(vc.f_abspath, 1)
    eng.rules[os.path.normpath] = rule1(vc.f_normpath, 1)
    eng.rules[os.fspath] = lambda e, args, kw, st, sink, n: iter([(st, args[0])])   # str -> itself

    # ================================================================== files on disk (ghost) and json
    import builtins
    import json as _json
    from pyvc.core import Exc, Unsupported
    PS_ = T.SetT(vc.Path)
    eng.ghost("disk_exists", PS_)     # paths of the state files that exist
    eng.ghost("disk_valid", PS_)      # ... and hold a complete JSON document
    vc.disk_maps = {}

    def disk_map(name, ty):
        eng.ghost(name, T.MapT(vc.Path, ty))
        vc.disk_maps[ty.name] = name

    vc.disk_map = disk_map
    disk_map("disk_hashes", HD)
    disk_map("disk_tracked", TJ)
    eng.cls("File", consts={"path": vc.Path})
    vc.File = T.ObjT("File")
    f_fpath = eng.const_fn("File", "path", vc.Path)
    eng.contract("iface:File.__enter__", self_type=vc.File, params={"self": vc.File}, returns=vc.File,
                 returns_expr="self", trusted=True, pure=True)
    eng.contract("iface:File.__exit__", self_type=vc.File, params={"self": vc.File}, trusted=True, pure=True,
                 note="closing the file; write errors at close are out of scope")

    def r_open(e, args, kw, st, sink, n):
        path = e.coerce(args[0], vc.Path, n)
        mode = args[1] if len(args) > 1 else kw.get("mode")
        if mode is None:
            m = "r"
        elif mode.ty is T.PY:
            m = mode.z
        elif z3.is_string_value(mode.z):
            m = mode.z.as_string()
        else:
            raise Unsupported("open() with symbolic mode", n)
        ex, va = st.ghost["disk_exists"], st.ghost["disk_valid"]
        f, st = e.fresh(vc.File, "file", st)
        st = st.assume(f_fpath(f.z) == path.z)
        if "w" in m:
            # truncating open: the file exists and is (for now) not a complete document (C09)
            st = st.set_ghost("disk_exists", V(PS_, z3.Store(ex.z, path.z, True)))
            st = st.set_ghost("disk_valid", V(PS_, z3.Store(va.z, path.z, False)))
            yield st, f
        else:
            missing = z3.Not(z3.Select(ex.z, path.z))
            if e.feasible(st, missing):
                sink.append((st.assume(missing), Exc(FileNotFoundError)))
            yield st.assume(z3.Select(ex.z, path.z)), f

    eng.rules[builtins.open] = r_open

    def r_json_load(e, args, kw, st, sink, n):
        f = args[0]
        want = st.meta.get("want") or (e.current.returns if e.current is not None else None)
        if want is None or want.name not in vc.disk_maps:
            raise Unsupported("json.load: no ghost disk map for the expected type", n)
        path = f_fpath(f.z)
        bad = z3.Not(z3.Select(st.ghost["disk_valid"].z, path))
        if e.feasible(st, bad):
            sink.append((st.assume(bad), Exc(_json.JSONDecodeError)))
        m = st.ghost[vc.disk_maps[want.name]]
        yield st.assume(z3.Not(bad)), V(want, z3.Select(m.z, path))

    def r_json_dump(e, args, kw, st, sink, n):
        obj, f = args[0], args[1]
        nm = vc.disk_maps.get(obj.ty.name)
        if nm is None and isinstance(obj.ty, T.DictT):
            for tn, gn in vc.disk_maps.items():
                mt = eng.ghost_decl[gn].val
                if isinstance(mt, T.DictT) and mt.key == obj.ty.key and mt.val == obj.ty.val:
                    nm = gn
        if nm is None:
            raise Unsupported(f"json.dump of {obj.ty}: no ghost disk map", n)
        path = f_fpath(f.z)
        m = st.ghost[nm]
        st = st.set_ghost(nm, V(m.ty, z3.Store(m.z, path, obj.z)))
        va = st.ghost["disk_valid"]
        yield st.set_ghost("disk_valid", V(PS_, z3.Store(va.z, path, True))), e.lift(None)

    eng.rules[_json.load] = r_json_load
    eng.rules[_json.dump] = r_json_dump
    _r_str = eng.rules[str]

    def r_str_path(e, args, kw, st, sink, n):
        if args and args[0].ty == vc.Path:
            yield st, args[0]      # str(path-like) is the path text (same abstract sort)
        else:
            yield from _r_str(e, args, kw, st, sink, n)

    eng.rules[str] = r_str_path

    import gwf.backends.exceptions as _bex
    for _n in ("BackendError", "TargetError", "UnsupportedOperationError"):
        eng.exc_names[_n] = getattr(_bex, _n)

    # ================================================================== option resolution (C10)
    OD = vc.Options
    OV = T.Opt(vc.OptVal)

    def chain2(a, b):
        """dict(a) updated with b: the later dictionary wins"""
        k = vc.OptKey.fresh("k")
        dom = z3.Lambda([k], z3.Or(z3.Select(OD.dom(a), k), z3.Select(OD.dom(b), k)))
        val = z3.Lambda([k], z3.If(z3.Select(OD.dom(b), k), z3.Select(OD.vals(b), k), z3.Select(OD.vals(a), k)))
        return OD.mk(dom, val)

    vc.chain2 = chain2
    eng.fn("Chain")(lambda e, st, a, b: V(OD, chain2(a.z, b.z)))

    def resolved(defaults, opts):
        """C10: backend default < target option; keys the backend does not know are dropped, None is omitted"""
        ch = chain2(defaults, opts)
        k = vc.OptKey.fresh("k")
        dom = z3.Lambda([k], z3.And(z3.Select(OD.dom(defaults), k), z3.Select(OD.dom(ch), k),
                                    z3.Not(OV.is_none(z3.Select(OD.vals(ch), k)))))
        return OD.mk(dom, OD.vals(ch))

    eng.fn("Resolved")(lambda e, st, d, o: V(OD, resolved(d.z, o.z)))
    eng.universe("OptKey", vc.OptKey)
    for _n in ("FileProvidedByMultipleTargetsError", "UnresolvedInputError", "CircularDependencyError",
               "InvalidPathError"):
        eng.exc_names[_n] = getattr(gwf.core, _n)
    import gwf.exceptions as _gex
    for _n in ("GWFError", "WorkflowError"):
        eng.exc_names[_n] = getattr(_gex, _n)

    # text -> abstract path (used where a path is computed from strings, e.g. log file names)
    vc.f_path_of_str = z3.Function("path_of_str", z3.StringSort(), vc.Path.sort())
    eng.str_atoms["Path"] = lambda z: vc.f_path_of_str(z)

    def m_joinpath(e, bb, args, kw, st, sink, n):
        r = bb.recv.z
        for a in args:
            r = vc.f_join(r, e.coerce(a, vc.Path, n).z)
        yield st, V(vc.Path, r)

    eng.method_rules[("Path", "joinpath")] = m_joinpath
    vc.Bytes = T.Atom("Bytes")
    eng.ghost("file_bytes", T.MapT(vc.Path, vc.Bytes))      # content of log files written by the local pool (C13)
    eng.contract("iface:File.write", self_type=vc.File, params={"self": vc.File, "data": vc.Bytes}, trusted=True,
                 modifies=["ghost:file_bytes"], ensures=["file_bytes == store(old(file_bytes), self.path, data)"],
                 note="a single write of the whole buffer to a freshly truncated file (partial writes by the OS out of scope)")

    # ---- definition of the declared file sets (DESIGN 3): the Canon-image of the leaves
    t_ = vc.Target.fresh("t")
    q_, l_ = vc.Path.fresh("q"), vc.Path.fresh("l")
    wd_of = eng.const_fn("Target", "working_dir", vc.Path)
    for f_set, field in ((vc.f_Outs, "outputs"), (vc.f_Ins, "inputs"), (vc.f_Prot, "protect")):
        tree_of = eng.const_fn("Target", field, vc.Tree)
        eng.axiom("filesets", z3.ForAll([t_, q_], z3.Select(f_set(t_), q_) == z3.Exists(
            [l_], z3.And(vc.in_leaves(tree_of(t_), l_), q_ == vc.f_abspath(vc.f_join(wd_of(t_), l_))))))

    # ================================================================== iterating nested path values (for _flatten)
    TreeS, TLS = vc.TreeS, vc.TreeListS

    class KidsT(T.Ty):
        """children of a list / dict value, iterated in order (cons-list: suffix iteration rule)"""
        def __init__(self, name, items):
            self.name, self.items = name, items
        def sort(self):
            return TLS
        def py_suffix_iter(self, e, coll):
            keyty = T.Atom("DictKey")
            def elem(e_, h, st):
                tv = V(vc.Tree, h)
                return e_.mk_tuple([V(keyty, keyty.fresh("key")), tv]) if self.items else tv
            return vc.TreeList, TLS.is_tnil, TLS.thead, TLS.ttail, elem

    vc.KidsT = KidsT("TreeKids", False)
    vc.KidItemsT = KidsT("TreeKidItems", True)

    def tree_iter(e, n, st, v, sink):     # `for v in g` on a nested value: its children (a leaf str would iterate characters)
        raise NotImplementedError

    # `for v in g` / `g.items()` on a Tree value
    eng.method_rules[("Tree", "items")] = lambda e, bb, a, kw, st, sink, n: iter([(st, V(vc.KidItemsT, TreeS.dkids(bb.recv.z)))])

    class TreeIter:
        pass

    def tree_suffix(self_ty, e, coll):
        return vc.KidsT.py_suffix_iter(e, V(vc.KidsT, TreeS.lkids(coll.z)))

    # a Tree used directly as an iterable: only list-like values reach that code (`else` branch of flatten_rec)
    vc.Tree.py_suffix_iter = lambda e, coll: (vc.TreeList, TLS.is_tnil, TLS.thead, TLS.ttail,
                                              (lambda e_, h, st: V(vc.Tree, h)))
    vc.Tree.py_suffix_start = lambda coll: TreeS.lkids(coll.z)
    _orig_for_suffix_tree = True
    import collections.abc
    eng.isinstance_hooks["Tree"] = lambda e, x, classes, st, n: V(T.BOOL, z3.Or(*(
        [z3.And(TreeS.is_leaf(x.z), z3.Not(vc.f_pathlike(TreeS.raw(x.z))))] if any(c is str for c in classes) else []) + (
        [TreeS.is_dct(x.z)] if any(c in (collections.abc.Mapping, dict) for c in classes) else []) + [z3.BoolVal(False)]))
    eng.hasattr_hooks["Tree"] = lambda e, x, nm, st, n: V(T.BOOL, z3.And(TreeS.is_leaf(x.z), vc.f_pathlike(TreeS.raw(x.z)))
                                                          if nm == "__fspath__" else z3.BoolVal(False))
    eng.coerce_hooks[("Tree", vc.Path.name)] = lambda e, v: V(vc.Path, TreeS.raw(v.z))    # appending a leaf value

"""Contracts for gwf.filtering: C02 (endpoint selection), C05, C15, C16, C17."""
import z3
from pyvc import ty as T
from pyvc.core import Loop, V


def install(eng):
    import fnmatch
    vc = eng.vc
    TS = vc.TargetSet
    vc.Pattern = T.Atom("Pattern")
    eng.universe("Pattern", vc.Pattern)
    vc.f_matches = z3.Function("Matches", vc.Name.sort(), vc.Pattern.sort(), z3.BoolSort())   # fnmatch: trusted
    eng.fn("Matches")(lambda e, st, nm, p: V(T.BOOL, vc.f_matches(nm.z, p.z)))
    LP = T.ListV(vc.Pattern)
    vc.Patterns = LP

    f_fnlen = z3.Function("fnmatch_len", z3.ArraySort(vc.Name.sort(), z3.BoolSort()), vc.Pattern.sort(), z3.IntSort())

    def r_fnfilter(e, args, kw, st, sink, n):
        names, pat = args
        if isinstance(names.ty, T.ListV):
            names = V(T.SetT(names.ty.elem), names.ty.elems(names.z))
        pat = e.coerce(pat, vc.Pattern, n)
        lt = T.ListV(vc.Name)
        x = vc.Name.fresh("n")
        # a term in (names, pattern): usable inside comprehension bodies
        r = V(lt, lt.mk(z3.Lambda([x], z3.And(z3.Select(names.z, x), vc.f_matches(x, pat.z))), f_fnlen(names.z, pat.z)))
        r.aux = ("unique",)
        yield st, r

    eng.rules[fnmatch.filter] = r_fnfilter

    # a Graph used as an iterable of its targets (Graph.__iter__ = iter(self.targets.values()))
    def graph_targets(e, g, st):
        d = z3.Select(st.heap[("Graph", "targets")], g.z)
        return vc.valset(d)

    eng.iter_hooks["Obj_Graph"] = lambda e, coll, st: (vc.Target, (lambda x, s=graph_targets(e, coll, st): z3.Select(s, x)), True)
    eng.arg_hooks[("Obj_Graph", TS.name)] = lambda e, v, st: V(TS, graph_targets(e, v, st))
    eng.fn("TargetsOf")(lambda e, st, g: V(TS, graph_targets(e, g, st)))

    # ---- class hierarchy of filters: one sort, dynamic predicate Pred(f, t)
    F = T.ObjT("Filter")
    vc.Filter = F
    eng.cls("Filter")
    eng.universe("Filter", F)
    NF = T.ObjT("NameFilter", root="Filter")
    EF = T.ObjT("EndpointFilter", root="Filter")
    SF = T.ObjT("StatusFilter", root="Filter")
    CF = T.ObjT("CompositeFilter", root="Filter")
    vc.NameFilter, vc.EndpointFilter, vc.StatusFilter, vc.CompositeFilter = NF, EF, SF, CF
    eng.cls("NameFilter", bases=["Filter"], root="Filter", pyname="gwf.filtering:NameFilter", fields={"patterns": LP})
    eng.cls("EndpointFilter", bases=["Filter"], root="Filter", pyname="gwf.filtering:EndpointFilter",
            fields={"endpoints": TS, "mode": T.STR})
    eng.cls("StatusFilter", bases=["Filter"], root="Filter", pyname="gwf.filtering:StatusFilter",
            fields={"table": T.DictT(vc.Target, vc.Status), "wanted": T.SetT(vc.Status)})
    eng.classes["Filter"].consts["kind"] = T.INT      # dynamic class: 0 name, 1 endpoint, 2 status, 3 composite
    f_kind = eng.const_fn("Filter", "kind", T.INT)
    eng.classes["NameFilter"].alloc_assume = ["self.kind == 0"]
    eng.classes["EndpointFilter"].alloc_assume = ["self.kind == 1"]
    eng.classes["StatusFilter"].alloc_assume = ["self.kind == 2"]
    CT = T.DictT(vc.Target, vc.Status)

    def pred(st, f, t):
        """what each filter class selects (the classes' predicate()/apply(), verified below per class)"""
        pats = z3.Select(st.heap[("NameFilter", "patterns")], f)
        p = vc.Pattern.fresh("p")
        name_ok = z3.Exists([p], z3.And(z3.Select(LP.elems(pats), p), vc.f_matches(eng.const_fn("Target", "name", vc.Name)(t), p)))
        ends = z3.Select(st.heap[("EndpointFilter", "endpoints")], f)
        mode = z3.Select(st.heap[("EndpointFilter", "mode")], f)
        end_ok = z3.If(mode == z3.StringVal("exclude"), z3.Not(z3.Select(ends, t)), z3.Select(ends, t))
        tab = z3.Select(st.heap[("StatusFilter", "table")], f)
        want = z3.Select(st.heap[("StatusFilter", "wanted")], f)
        st_ok = z3.And(z3.Select(CT.dom(tab), t), z3.Select(want, z3.Select(CT.vals(tab), t)))
        k = f_kind(f)
        return z3.If(k == 0, name_ok, z3.If(k == 1, end_ok, z3.If(k == 2, st_ok, z3.BoolVal(True))))

    eng.fn("Pred")(lambda e, st, f, t: V(T.BOOL, pred(st, f.z, t.z)))
    eng.cls("CompositeFilter", bases=["Filter"], root="Filter", pyname="gwf.filtering:CompositeFilter",
            fields={"filters": T.ListV(F)})
    eng.classes["CompositeFilter"].alloc_assume = ["self.kind == 3"]
    UNIQ = "all(implies(a.name == b.name, a == b) for a in targets for b in targets)"
    S = ["C02", "C05", "C15", "C16", "C17"]

    # interface used by CompositeFilter: every filter selects by its predicate
    eng.contract("iface:Filter.apply", self_type=F, params={"self": F, "targets": TS}, returns=TS,
                 requires=[UNIQ], returns_expr="setof(lambda t: t in targets and Pred(self, t), Target)",
                 trusted=True, pure=True)

    NAMEPRED = "any(Matches(t.name, p) for p in self.patterns)"
    eng.contract("gwf.filtering:NameFilter.__init__", self_type=NF, params={"self": NF, "patterns": LP},
                 modifies=["self.patterns"], ensures=["elems(self.patterns) == elems(patterns)"], serves=S)
    eng.contract("gwf.filtering:NameFilter.apply", self_type=NF, params={"self": NF, "targets": TS}, returns=TS,
                 locals={"target_name_map": T.DictT(vc.Name, vc.Target)}, requires=[UNIQ],
                 # C02/C17: exactly the given targets whose name matches one of the patterns
                 ensures=["forall(lambda t: (t in result) == (t in targets and %s), Target)" % NAMEPRED], serves=S)
    IFR = "setof(lambda t: t in targets and Pred(self, t), Target)"
    eng.contract("dispatch:NameFilter.apply", body_of="gwf.filtering:NameFilter.apply", self_type=NF,
                 params={"self": NF, "targets": TS}, returns=TS, locals={"target_name_map": T.DictT(vc.Name, vc.Target)},
                 requires=[UNIQ, "self.kind == 0"],
                 ensures=["forall(lambda t: (t in result) == (t in targets and Pred(self, t)), Target)"], serves=S,
                 note="dynamic dispatch of iface:Filter.apply to NameFilter")
    eng.contract("dispatch:EndpointFilter.apply", body_of="gwf.filtering:ApplyMixin.apply", self_type=EF,
                 params={"self": EF, "targets": TS}, returns=TS,
                 requires=["self.kind == 1", "self.mode == 'exclude' or self.mode == 'include'"],
                 ensures=["forall(lambda t: (t in result) == (t in targets and Pred(self, t)), Target)"], serves=S,
                 note="dynamic dispatch of iface:Filter.apply to EndpointFilter")
    eng.contract("gwf.filtering:filter_names", params={"targets": TS, "patterns": LP}, returns=TS, requires=[UNIQ],
                 modifies=["NameFilter.patterns"],
                 ensures=["forall(lambda t: (t in result) == (t in targets and any(Matches(t.name, p) for p in patterns)), Target)"],
                 serves=S)
    eng.contract("gwf.filtering:EndpointFilter.__init__", self_type=EF,
                 params={"self": EF, "endpoints": TS, "mode": T.STR}, modifies=["self.endpoints", "self.mode"],
                 ensures=["self.endpoints == endpoints", "self.mode == mode"], serves=S)
    eng.contract("gwf.filtering:EndpointFilter.predicate", self_type=EF, params={"self": EF, "target": vc.Target},
                 returns=T.BOOL, requires=["self.mode == 'exclude' or self.mode == 'include'"], pure=True,
                 returns_expr="(target not in self.endpoints) if self.mode == 'exclude' else (target in self.endpoints)",
                 serves=S)
    eng.contract("gwf.filtering:EndpointFilter.apply", body_of="gwf.filtering:ApplyMixin.apply", self_type=EF,
                 params={"self": EF, "targets": TS}, returns=TS,
                 requires=["self.mode == 'exclude' or self.mode == 'include'"],
                 ensures=["forall(lambda t: (t in result) == (t in targets and "
                          "((t not in self.endpoints) if self.mode == 'exclude' else (t in self.endpoints))), Target)"],
                 serves=S)
    eng.contract("gwf.filtering:CompositeFilter.__init__", self_type=CF, params={"self": CF, "filters": T.ListV(F)},
                 modifies=["self.filters"], ensures=["elems(self.filters) == elems(filters)"], serves=S)
    eng.contract("gwf.filtering:CompositeFilter.apply", self_type=CF, params={"self": CF, "targets": TS}, returns=TS,
                 requires=[UNIQ], modifies=[],
                 # every combination of filters shows the corresponding restriction (C05)
                 ensures=["forall(lambda t: (t in result) == (t in targets and all(Pred(f, t) for f in self.filters)), Target)"],
                 loops={1: Loop(seen="sf", inv=[
                     "forall(lambda t: (t in targets) == (t in old(targets) and all(Pred(f, t) for f in sf)), Target)"])},
                 serves=S)
    eng.contract("gwf.filtering:filter_generic", params={"targets": TS, "filters": T.ListV(F)}, returns=TS,
                 requires=[UNIQ], modifies=["CompositeFilter.filters"],
                 ensures=["forall(lambda t: (t in result) == (t in targets and all(Pred(f, t) for f in filters)), Target)"],
                 serves=S)

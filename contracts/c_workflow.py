"""Contracts for workflow definition: names, paths, working directories (C19)."""
import re
import unicodedata
import z3
from pyvc import ty as T
from pyvc.core import Loop, V, Exc, Unsupported
from pyvc import regex as RX


def install(eng):
    vc = eng.vc
    OM = T.Opt(T.Atom("Match"))

    # re.match / re.fullmatch with a literal pattern: exact regex semantics (incl. `$` before a trailing newline)
    def r_match(which):
        def rule(e, args, kw, st, sink, n):
            pat, s = args[0], e.coerce(args[1], T.STR, n)
            if not (pat.ty is T.STR and z3.is_string_value(pat.z)):
                raise Unsupported("re.match with a non-literal pattern", n)
            rx = (RX.match_regex if which == "match" else RX.fullmatch_regex)(pat.z.as_string())
            m, st = e.fresh(OM, "m", st)
            yield st.assume(z3.Not(OM.is_none(m.z)) == z3.InRe(s.z, rx)), m
        return rule

    eng.rules[re.match] = r_match("match")
    eng.rules[re.fullmatch] = r_match("fullmatch")
    ident = z3.Concat(z3.Union(z3.Range("a", "z"), z3.Range("A", "Z"), z3.Re("_")),
                      z3.Star(z3.Union(z3.Range("a", "z"), z3.Range("A", "Z"), z3.Range("0", "9"), z3.Re("."), z3.Re("_"))))
    eng.fn("IdentifierLike")(lambda e, st, s: V(T.BOOL, z3.InRe(s.z, ident)))
    eng.contract("gwf.utils:is_valid_name", params={"candidate": T.STR}, returns=T.BOOL,
                 # C19: identifier-like strings and nothing else (taken from the statement, not from the pattern)
                 ensures=["result == IdentifierLike(candidate)"], serves=["C19"])

    def replay_name(eng_, ob, model, seed):
        from gwf.utils import is_valid_name
        cands = ["A\n", "a", "_x.1", "1a", "", "a b", "a\n\n", "é", "a-b", "a.b\n"]
        if model is not None:
            try:
                v = model.eval(eng_.entry_state.env["candidate"].z, model_completion=True)
                cands.insert(0, v.as_string().encode().decode("unicode_escape") if hasattr(v, "as_string") else "A\n")
            except Exception:
                pass
        for c in cands:
            want = re.fullmatch(r"[a-zA-Z_][a-zA-Z0-9._]*", c) is not None
            if is_valid_name(c) != want:
                return {"failed_on_real_code": True, "input": {"candidate": c}, "observed": is_valid_name(c),
                        "required": want, "witness_class": "name-with-trailing-newline" if c.endswith("\n") else "name-other",
                        "call": "gwf.utils.is_valid_name(candidate)", "candidates_tried": len(cands)}
        return {"failed_on_real_code": False, "candidates_tried": len(cands)}

    eng.replayers["gwf.utils:is_valid_name"] = replay_name

    # ---- path validation (C19): a leaf is a str or a path object
    PV = z3.Datatype("PathVal")
    PV.declare("pv_str", ("pv_text", z3.StringSort()))
    PV.declare("pv_like", ("pv_fspath", z3.StringSort()))      # os.PathLike with __fspath__() text
    PV = PV.create()
    PVT = T.DataT("PathVal", PV)
    vc.PathVal = PVT
    eng.truthy_hooks["PathVal"] = lambda e, v: z3.If(PV.is_pv_str(v.z), z3.Length(PV.pv_text(v.z)) > 0, z3.BoolVal(True))
    f_ucat = z3.Function("unicode_category", z3.StringSort(), z3.StringSort())
    eng.rules[unicodedata.category] = lambda e, args, kw, st, sink, n: iter([(st, V(T.STR, f_ucat(e.coerce(args[0], T.STR, n).z)))])
    f_esc = z3.Function("unicode_escape", z3.StringSort(), z3.StringSort())
    eng.method_rules[("Str", "encode")] = lambda e, bb, a, kw, st, sink, n: iter([(st, V(T.STR, f_esc(bb.recv.z)))])
    eng.method_rules[("Str", "decode")] = lambda e, bb, a, kw, st, sink, n: iter([(st, bb.recv)])

    def has_cc(s):
        i = z3.Int("i!cc")
        return z3.Exists([i], z3.And(0 <= i, i < z3.Length(s), f_ucat(eng.char_at(s, i)) == z3.StringVal("Cc")))

    eng.fn("CharAt")(lambda e, st, s, i: V(T.STR, e.char_at(s.z, e.coerce(i, T.INT).z)))

    eng.fn("HasControlChar")(lambda e, st, s: V(T.BOOL, has_cc(s.z)))
    eng.fn("UCat")(lambda e, st, s: V(T.STR, f_ucat(s.z)))
    eng.fn("PathText")(lambda e, st, p: V(T.STR, z3.If(PV.is_pv_str(p.z), PV.pv_text(p.z), PV.pv_fspath(p.z))))
    eng.fn("IsStr")(lambda e, st, p: V(T.BOOL, PV.is_pv_str(p.z)))
    R3 = T.Opt(T.TupT(T.STR, T.STR, T.INT))
    eng.universe("Int", T.INT)
    eng.contract("gwf.core:_has_nonprintable_char", params={"s": PVT}, returns=R3,
                 ensures=["IsStr(s)", "(result is not None) == HasControlChar(PathText(s))"],
                 raises={"TypeError": "not IsStr(s)"},      # a path object is not iterable
                 loops={1: Loop(it="pos0", inv=["pos0 >= 0", "IsStr(s)",
                                               "forall(lambda i: implies(0 <= i and i < pos0 and i < len(PathText(s)), "
                                               "UCat(CharAt(PathText(s), i)) != 'Cc'), Int)"])},
                 serves=["C19"])
    eng.method_rules[("PathVal", "encode")] = lambda e, bb, a, kw, st, sink, n: iter([(st, V(T.STR, f_esc(PV.pv_text(bb.recv.z))))])

    # iterating a PathVal: a str iterates its characters; a path object is not iterable (TypeError)
    def strgen_pathval(e, n, st, v, sink):
        isstr = PV.is_pv_str(v.z)
        if e.feasible(st, z3.Not(isstr)):
            sink.append((st.assume(z3.Not(isstr)), Exc(TypeError)))
        yield st.assume(isstr), V(T.PY, ("strgen", n, dict(st.env), V(T.STR, PV.pv_text(v.z))))

    eng.strgen_hooks["PathVal"] = strgen_pathval
    eng.coerce_hooks[("Str", "PathVal")] = lambda e, v: V(PVT, PV.pv_str(v.z))      # a str IS a path value
    import os as _os
    _fs = eng.rules[_os.fspath]

    def r_fspath(e, args, kw, st, sink, n):
        if args[0].ty == PVT:
            yield st, V(T.STR, z3.If(PV.is_pv_str(args[0].z), PV.pv_text(args[0].z), PV.pv_fspath(args[0].z)))
        else:
            yield from _fs(e, args, kw, st, sink, n)

    eng.rules[_os.fspath] = r_fspath
    eng.contract("gwf.core:_check_path", params={"path": PVT},
                 # C19: accepted iff a non-empty string or a path object whose text has no control character ...
                 ensures=["not HasControlChar(PathText(path))", "implies(IsStr(path), len(PathText(path)) > 0)"],
                 # ... rejected (InvalidPathError, never TypeError) otherwise
                 raises={"InvalidPathError": "HasControlChar(PathText(path)) or (IsStr(path) and len(PathText(path)) == 0) "
                                             "or len(PathText(path)) == 0"},
                 serves=["C19"])

    def replay_check_path(eng_, ob, model, seed):
        import pathlib
        from gwf.core import Target, InvalidPathError
        cases = [(pathlib.Path("a.txt"), True), ("a.txt", True), (pathlib.Path("d") / "x", True), ("", False),
                 ("a\x07b", False), (pathlib.Path("a\x07b"), False), ("oké", True)]
        for p, ok in cases:
            for field in ("inputs", "outputs"):
                kw = {"inputs": [], "outputs": []}
                kw[field] = [p]
                try:
                    Target(name="t", options={}, working_dir="/w", **kw)
                    got = "accepted"
                except InvalidPathError:
                    got = "InvalidPathError"
                except Exception as e:
                    got = type(e).__name__
                want = "accepted" if ok else "InvalidPathError"
                if got != want:
                    return {"failed_on_real_code": True, "input": {field: [repr(p)]}, "observed": got, "required": want,
                            "witness_class": "pathlike-rejected" if got == "TypeError" else "path-other",
                            "call": "gwf.core.Target(name, inputs, outputs, options, working_dir)", "candidates_tried": len(cases)}
        return {"failed_on_real_code": False, "candidates_tried": len(cases)}

    for k in ("gwf.core:_check_path", "gwf.core:_has_nonprintable_char"):
        eng.replayers[k] = replay_check_path

"""Contracts for workflow definition: names, paths, working directories (C19)."""
import re
import unicodedata
import z3
from pyvc import ty as T
from pyvc.core import Loop, V, Exc, Unsupported
from pyvc import regex as RX


def install(eng):
    vc = eng.vc
    OM = T.Opt(T.Atom("Match"))

    # re.match / re.fullmatch with a literal pattern: exact regex semantics (incl. `$` before a trailing newline)
    def r_match(which):
        def rule(e, args, kw, st, sink, n):
            pat, s = args[0], e.coerce(args[1], T.STR, n)
            if not (pat.ty is T.STR and z3.is_string_value(pat.z)):
                raise Unsupported("re.match with a non-literal pattern", n)
            rx = (RX.match_regex if which == "match" else RX.fullmatch_regex)(pat.z.as_string())
            m, st = e.fresh(OM, "m", st)
            yield st.assume(z3.Not(OM.is_none(m.z)) == z3.InRe(s.z, rx)), m
        return rule

    eng.rules[re.match] = r_match("match")
    eng.rules[re.fullmatch] = r_match("fullmatch")
    ident = z3.Concat(z3.Union(z3.Range("a", "z"), z3.Range("A", "Z"), z3.Re("_")),
                      z3.Star(z3.Union(z3.Range("a", "z"), z3.Range("A", "Z"), z3.Range("0", "9"), z3.Re("."), z3.Re("_"))))
    eng.fn("IdentifierLike")(lambda e, st, s: V(T.BOOL, z3.InRe(s.z, ident)))
    eng.contract("gwf.utils:is_valid_name", params={"candidate": T.STR}, returns=T.BOOL,
                 # C19: identifier-like strings and nothing else (taken from the statement, not from the pattern)
                 ensures=["result == IdentifierLike(candidate)"], serves=["C19"])

    def replay_name(eng_, ob, model, seed):
        from gwf.utils import is_valid_name
        cands = ["A\n", "a", "_x.1", "1a", "", "a b", "a\n\n", "é", "a-b", "a.b\n"]
        if model is not None:
            try:
                v = model.eval(eng_.entry_state.env["candidate"].z, model_completion=True)
                cands.insert(0, v.as_string().encode().decode("unicode_escape") if hasattr(v, "as_string") else "A\n")
            except Exception:
                pass
        for c in cands:
            want = re.fullmatch(r"[a-zA-Z_][a-zA-Z0-9._]*", c) is not None
            if is_valid_name(c) != want:
                return {"failed_on_real_code": True, "input": {"candidate": c}, "observed": is_valid_name(c),
                        "required": want, "witness_class": "name-with-trailing-newline" if c.endswith("\n") else "name-other",
                        "call": "gwf.utils.is_valid_name(candidate)", "candidates_tried": len(cands)}
        return {"failed_on_real_code": False, "candidates_tried": len(cands)}

    eng.replayers["gwf.utils:is_valid_name"] = replay_name

    # ---- path validation (C19): a leaf is a str or a path object
    PV = z3.Datatype("PathVal")
    PV.declare("pv_str", ("pv_text", z3.StringSort()))
    PV.declare("pv_like", ("pv_fspath", z3.StringSort()))      # os.PathLike with __fspath__() text
    PV = PV.create()
    PVT = T.DataT("PathVal", PV)
    vc.PathVal = PVT
    eng.truthy_hooks["PathVal"] = lambda e, v: z3.If(PV.is_pv_str(v.z), z3.Length(PV.pv_text(v.z)) > 0, z3.BoolVal(True))
    f_ucat = z3.Function("unicode_category", z3.StringSort(), z3.StringSort())
    eng.rules[unicodedata.category] = lambda e, args, kw, st, sink, n: iter([(st, V(T.STR, f_ucat(e.coerce(args[0], T.STR, n).z)))])
    f_esc = z3.Function("unicode_escape", z3.StringSort(), z3.StringSort())
    eng.method_rules[("Str", "encode")] = lambda e, bb, a, kw, st, sink, n: iter([(st, V(T.STR, f_esc(bb.recv.z)))])
    eng.method_rules[("Str", "decode")] = lambda e, bb, a, kw, st, sink, n: iter([(st, bb.recv)])

    def has_cc(s):
        i = z3.Int("i!cc")
        return z3.Exists([i], z3.And(0 <= i, i < z3.Length(s), f_ucat(eng.char_at(s, i)) == z3.StringVal("Cc")))

    eng.fn("CharAt")(lambda e, st, s, i: V(T.STR, e.char_at(s.z, e.coerce(i, T.INT).z)))

    eng.fn("HasControlChar")(lambda e, st, s: V(T.BOOL, has_cc(s.z)))
    eng.fn("UCat")(lambda e, st, s: V(T.STR, f_ucat(s.z)))
    eng.fn("PathText")(lambda e, st, p: V(T.STR, z3.If(PV.is_pv_str(p.z), PV.pv_text(p.z), PV.pv_fspath(p.z))))
    eng.fn("IsStr")(lambda e, st, p: V(T.BOOL, PV.is_pv_str(p.z)))
    R3 = T.Opt(T.TupT(T.STR, T.STR, T.INT))
    eng.universe("Int", T.INT)
    eng.contract("gwf.core:_has_nonprintable_char", params={"s": PVT}, returns=R3,
                 ensures=["IsStr(s)", "(result is not None) == HasControlChar(PathText(s))"],
                 raises={"TypeError": "not IsStr(s)"},      # a path object is not iterable
                 loops={1: Loop(it="pos0", inv=["pos0 >= 0", "IsStr(s)",
                                               "forall(lambda i: implies(0 <= i and i < pos0 and i < len(PathText(s)), "
                                               "UCat(CharAt(PathText(s), i)) != 'Cc'), Int)"])},
                 serves=["C19"])
    eng.method_rules[("PathVal", "encode")] = lambda e, bb, a, kw, st, sink, n: iter([(st, V(T.STR, f_esc(PV.pv_text(bb.recv.z))))])

    # iterating a PathVal: a str iterates its characters; a path object is not iterable (TypeError)
    def strgen_pathval(e, n, st, v, sink):
        isstr = PV.is_pv_str(v.z)
        if e.feasible(st, z3.Not(isstr)):
            sink.append((st.assume(z3.Not(isstr)), Exc(TypeError)))
        yield st.assume(isstr), V(T.PY, ("strgen", n, dict(st.env), V(T.STR, PV.pv_text(v.z))))

    eng.strgen_hooks["PathVal"] = strgen_pathval
    eng.coerce_hooks[("Str", "PathVal")] = lambda e, v: V(PVT, PV.pv_str(v.z))      # a str IS a path value
    import os as _os
    _fs = eng.rules[_os.fspath]

    def r_fspath(e, args, kw, st, sink, n):
        if args[0].ty == PVT:
            yield st, V(T.STR, z3.If(PV.is_pv_str(args[0].z), PV.pv_text(args[0].z), PV.pv_fspath(args[0].z)))
        else:
            yield from _fs(e, args, kw, st, sink, n)

    eng.rules[_os.fspath] = r_fspath
    eng.contract("gwf.core:_check_path", params={"path": PVT},
                 # C19: accepted iff a non-empty string or a path object whose text has no control character ...
                 ensures=["not HasControlChar(PathText(path))", "implies(IsStr(path), len(PathText(path)) > 0)"],
                 # ... rejected (InvalidPathError, never TypeError) otherwise
                 raises={"InvalidPathError": "HasControlChar(PathText(path)) or (IsStr(path) and len(PathText(path)) == 0) "
                                             "or len(PathText(path)) == 0"},
                 serves=["C19"])

    def replay_check_path(eng_, ob, model, seed):
        import pathlib
        from gwf.core import Target, InvalidPathError
        cases = [(pathlib.Path("a.txt"), True), ("a.txt", True), (pathlib.Path("d") / "x", True), ("", False),
                 ("a\x07b", False), (pathlib.Path("a\x07b"), False), ("oké", True)]
        for p, ok in cases:
            for field in ("inputs", "outputs"):
                kw = {"inputs": [], "outputs": []}
                kw[field] = [p]
                try:
                    Target(name="t", options={}, working_dir="/w", **kw)
                    got = "accepted"
                except InvalidPathError:
                    got = "InvalidPathError"
                except Exception as e:
                    got = type(e).__name__
                want = "accepted" if ok else "InvalidPathError"
                if got != want:
                    return {"failed_on_real_code": True, "input": {field: [repr(p)]}, "observed": got, "required": want,
                            "witness_class": "pathlike-rejected" if got == "TypeError" else "path-other",
                            "call": "gwf.core.Target(name, inputs, outputs, options, working_dir)", "candidates_tried": len(cases)}
        return {"failed_on_real_code": False, "candidates_tried": len(cases)}

    for k in ("gwf.core:_check_path", "gwf.core:_has_nonprintable_char"):
        eng.replayers[k] = replay_check_path

    # ================================================================== Workflow (C19, C10 precedence)
    import attrs
    import gwf.core
    import gwf.utils
    W = vc.Workflow
    OD = vc.Options
    eng.classes["Workflow"].consts["defaults"] = OD
    AT = T.ObjT("AnonymousTarget")
    OPth = T.Opt(vc.Path)
    eng.cls("AnonymousTarget", pyname="gwf.core:AnonymousTarget",
            consts={"inputs": vc.Tree, "outputs": vc.Tree, "options": OD, "protect": vc.Tree, "spec": vc.SpecText,
                    "group": T.Atom("Group"), "working_dir": OPth, "wd_given": T.BOOL})
    f_ptruthy = z3.Function("path_truthy", vc.Path.sort(), z3.BoolSort())
    sx = z3.String("s!pt")
    eng.axioms.append(z3.ForAll([sx], f_ptruthy(vc.f_path_of_str(sx)) == (z3.Length(sx) > 0)))
    eng.truthy_hooks["Path"] = lambda e, v: f_ptruthy(v.z)
    # the working directory a template gets when its author does not give one: read from the real class
    dflt = attrs.fields(gwf.core.AnonymousTarget).working_dir.default
    vc.template_wd_default = eng.coerce(eng.lift(dflt), OPth) if dflt is not None else V(OPth, OPth.none())
    eng.spec_consts["TEMPLATE_WD_DEFAULT"] = vc.template_wd_default
    a2, b2, c2 = (OD.fresh(n_) for n_ in ("dA", "dB", "dC"))
    for nm, v_ in (("dA", a2), ("dB", b2), ("dC", c2)):
        eng.spec_consts[nm] = V(OD, v_)
    eng.contract("gwf.utils:chain/2", body_of="gwf.utils:chain", params={"dcts": V(T.PY, ("pytuple", (V(OD, a2), V(OD, b2))))},
                 returns=OD, locals={"new": OD}, ensures=["dict_eq(result, Chain(dA, dB))"], serves=["C10", "C19"],
                 note="C10 precedence: the later dictionary wins (verified for two and three arguments)")
    eng.contract("gwf.utils:chain/3", body_of="gwf.utils:chain",
                 params={"dcts": V(T.PY, ("pytuple", (V(OD, a2), V(OD, b2), V(OD, c2))))},
                 returns=OD, locals={"new": OD}, ensures=["dict_eq(result, Chain(Chain(dA, dB), dC))"], serves=["C10", "C19"])

    def r_chain(e, args, kw, st, sink, n):
        r = e.coerce(args[0], OD, n).z
        for a_ in args[1:]:
            r = vc.chain2(r, e.coerce(a_, OD, n).z)
        e.called.add("gwf.utils:chain/%d" % len(args)) if len(args) in (2, 3) else None
        yield st, V(OD, r)

    eng.rules[gwf.utils.chain] = r_chain
    NAMES = ["all(self.targets[k].name == k for k in self.targets)"]
    eng.contract("gwf.workflow:Workflow._add_target", self_type=W, params={"self": W, "target": vc.Target},
                 requires=NAMES, modifies=["self.targets"],
                 ensures=NAMES + ["target.name in self.targets", "self.targets[target.name] == target",
                                  "target.name not in old(self.targets)",
                                  "forall(lambda k: implies(k != target.name, (k in self.targets) == (k in old(self.targets)) and "
                                  "implies(k in self.targets, self.targets[k] == old(self.targets)[k])), Name)"],
                 # C19: names are unique: a second target with the same name is rejected, never overwritten
                 raises={"WorkflowError": {"cond": "target.name in self.targets", "modifies": []}}, serves=["C19"])
    f_nametext = z3.Function("name_text", vc.Name.sort(), z3.StringSort())
    eng.fn("NameText")(lambda e, st, nme: V(T.STR, f_nametext(nme.z)))
    eng.contract(
        "gwf.core:Target.__init__",
        params={"name": vc.Name, "inputs": vc.Tree, "outputs": vc.Tree, "options": OD, "group": T.Opt(T.Atom("Group")),
                "working_dir": vc.Path, "protect": vc.Tree, "spec": vc.SpecText},
        returns=vc.Target, trusted=True, modifies=["Target.options"],
        defaults={"group": V(T.Opt(T.Atom("Group")), T.Opt(T.Atom("Group")).none()),
                  "spec": V(vc.SpecText, z3.Const("empty_spec", vc.SpecText.sort()))},
        ensures=["result.name == name", "result.working_dir == working_dir", "result.inputs == inputs",
                 "result.outputs == outputs", "dict_eq(result.options, options)", "IdentifierLike(NameText(name))",
                 "forall(lambda t: implies(t != result, t.options == old(t.options)), Target)"],
        raises={"GWFError": {"cond": "not IdentifierLike(NameText(name))", "modifies": []},
                "InvalidPathError": {"cond": "True", "modifies": []}},
        note="attrs-generated constructor + validators (is_valid_name and _check_path are verified on their own)")
    eng.contract(
        "gwf.workflow:Workflow.target", self_type=W,
        params={"self": W, "name": vc.Name, "inputs": vc.Tree, "outputs": vc.Tree, "protect": T.Opt(vc.Tree), "options": OD},
        returns=vc.Target, requires=NAMES, modifies=["self.targets", "Target.options"],
        ensures=NAMES + [
            # C19: a directly defined target lives in the workflow's working directory
            "result.working_dir == self.working_dir", "result.name == name",
            # C10: workflow defaults < keyword options
            "dict_eq(result.options, Chain(self.defaults, options))", "self.targets[name] == result"],
        raises={"WorkflowError": {"cond": "name in self.targets", "modifies": ["Target.options"]},
                "GWFError": {"cond": "True", "modifies": []}, "InvalidPathError": {"cond": "True", "modifies": []}},
        serves=["C19", "C10"])
    eng.contract(
        "gwf.workflow:Workflow.target_from_template", self_type=W,
        params={"self": W, "name": vc.Name, "template": AT, "options": OD}, returns=vc.Target,
        requires=NAMES + ["implies(not template.wd_given, template.working_dir == TEMPLATE_WD_DEFAULT)"],
        modifies=["self.targets", "Target.options"],
        ensures=NAMES + [
            # C19: a template that does not name a working directory gets the workflow's
            "implies(not template.wd_given, result.working_dir == self.working_dir)",
            # C10: workflow defaults < template options < keyword options
            "dict_eq(result.options, Chain(Chain(self.defaults, template.options), options))",
            "result.name == name", "self.targets[name] == result"],
        raises={"WorkflowError": {"cond": "name in self.targets", "modifies": ["Target.options"]},
                "GWFError": {"cond": "True", "modifies": []}, "InvalidPathError": {"cond": "True", "modifies": []}},
        serves=["C19", "C10"])

    def replay_template_wd(eng_, ob, model, seed):
        import os, tempfile
        from gwf import Workflow, AnonymousTarget
        wf = Workflow(working_dir="/some/workflow/dir")
        tpl = AnonymousTarget(inputs=["in.txt"], outputs=["out.txt"], options={})
        t = wf.target_from_template("T", tpl)
        d = tempfile.mkdtemp(prefix="gwfverif-")
        old = os.getcwd()
        try:
            os.chdir(d)
            ins = t.flattened_inputs()
        finally:
            os.chdir(old)
            os.rmdir(d)
        want = ["/some/workflow/dir/in.txt"]
        if ins != want:
            return {"failed_on_real_code": True, "witness_class": "template-target-resolves-against-cwd",
                    "input": {"workflow.working_dir": "/some/workflow/dir", "template": "AnonymousTarget(inputs=['in.txt'], "
                              "outputs=['out.txt'], options={})", "invoked from": d},
                    "observed": {"target.working_dir": t.working_dir, "flattened_inputs": ins}, "required": want,
                    "call": "Workflow.target_from_template(name, template)", "candidates_tried": 1}
        return {"failed_on_real_code": False, "candidates_tried": 1}

    eng.replayers["gwf.workflow:Workflow.target_from_template"] = replay_template_wd

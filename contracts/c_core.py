"""Contracts for gwf.core"""
from pyvc import ty as T
from pyvc.core import Loop


def install(eng):
    vc = eng.vc
    LP = T.ListV(vc.Path)
    # ---- Target
    eng.contract("gwf.core:Target.flattened_outputs", self_type=vc.Target, params={"self": vc.Target}, returns=LP,
                 ensures=["forall(lambda q: (q in result) == (q in Outs(self)), Path)", "(len(result) == 0) == (nleaves(self.outputs) == 0)"],
                 uses=["tree", "filesets", "ospath"], serves=["C01", "C03", "C04", "C15", "C16"],
                 note="Outs is DEFINED as the Canon-image of the leaves (axiom group filesets); 'no leaf <=> empty set' "
                      "(group tree) is a structural-induction lemma that is assumed")
    eng.contract("gwf.core:Target.flattened_inputs", self_type=vc.Target, params={"self": vc.Target}, returns=LP,
                 ensures=["forall(lambda q: (q in result) == (q in Ins(self)), Path)", "(len(result) == 0) == (nleaves(self.inputs) == 0)"],
                 uses=["tree", "filesets", "ospath"], serves=["C01", "C03", "C04"])
    # ---- filesystem interface
    eng.contract("iface:Fs.exists", self_type=vc.Fs, params={"self": vc.Fs, "path": vc.Path}, returns=T.BOOL,
                 returns_expr="fs_exists(self, path)", trusted=True)
    eng.contract("iface:Fs.changed_at", self_type=vc.Fs, params={"self": vc.Fs, "path": vc.Path}, returns=T.REAL,
                 returns_expr="fs_mtime(self, path)", ensures=["fs_exists(self, path)"],
                 raises={"FileNotFoundError": "not fs_exists(self, path)"}, trusted=True, uses=["fs"])
    # ---- path normalisation (C03, C19): string level kept abstract, os.path algebra trusted
    eng.contract("gwf.core:_norm_path", params={"working_dir": vc.Path, "path": vc.Path}, returns=vc.Path,
                 returns_expr="Canon(working_dir, path)", pure=True, uses=["ospath"],
                 serves=["C03", "C01", "C15", "C19"])

    def replay_norm_path(eng, ob, model, seed):
        """enumerative concretiser: spellings over segments {a, ., .., ''} up to 3 segments (bounded, replay only)"""
        import itertools, os
        from gwf.core import _norm_path
        segs = ["a", ".", "..", "b"]
        tried = 0
        for wd in ("/w", "/w/d"):
            for k in (1, 2, 3):
                for parts in itertools.product(segs, repeat=k):
                    for lead in ("", "/", "/w/"):
                        p = lead + "/".join(parts)
                        tried += 1
                        want = os.path.normpath(os.path.join(wd, p))
                        got = _norm_path(wd, p)
                        if got != want:
                            return {"failed_on_real_code": True, "witness_class": "absolute-not-normalised"
                                    if os.path.isabs(p) else "other",
                                    "input": {"working_dir": wd, "path": p}, "observed": got, "required": want,
                                    "candidates_tried": tried, "call": "gwf.core._norm_path(working_dir, path)"}
        return {"failed_on_real_code": False, "candidates_tried": tried}

    eng.replayers["gwf.core:_norm_path"] = replay_norm_path

    # ---- flattening of nested inputs/outputs (C01: grouping does not matter; C03, C15, C16 rely on it)
    FnRef = vc.FnRef
    eng.contract(
        "gwf.core:_flatten.flatten_rec", params={"g": vc.Tree},
        captures={"res": LP, "flatten_rec": FnRef("gwf.core:_flatten.flatten_rec")}, modifies=["res"],
        # every leaf of g is appended, nothing else; the count is the number of leaves
        ensures=["forall(lambda p: (p in res) == (p in old(res) or InLeaves(g, p)), Path)",
                 "len(res) == old(len(res)) + nleaves(g)"],
        loops={1: Loop(it="rest", inv=[
            "forall(lambda p: (p in res or InLeaves(rest, p)) == (p in old(res) or InLeaves(g, p)), Path)",
            "len(res) + nleaves(rest) == old(len(res)) + nleaves(g)"]),
            2: Loop(it="rest", inv=[
                "forall(lambda p: (p in res or InLeaves(rest, p)) == (p in old(res) or InLeaves(g, p)), Path)",
                "len(res) + nleaves(rest) == old(len(res)) + nleaves(g)"])},
        uses=["leaves"], serves=["C01", "C03", "C15", "C16", "C19"],
        note="termination (structural recursion over the value) is not mechanised")
    eng.contract("gwf.core:_flatten", params={"t": vc.Tree}, returns=LP, locals={"res": LP},
                 ensures=["forall(lambda p: (p in result) == InLeaves(t, p), Path)", "len(result) == nleaves(t)"],
                 uses=["leaves"], serves=["C01", "C03", "C15", "C16", "C19"])
    eng.contract("gwf.core:_norm_paths", params={"working_dir": vc.Path, "paths": LP}, returns=LP,
                 ensures=["forall(lambda q: (q in result) == any(q == Canon(working_dir, p) for p in paths), Path)",
                          "(len(result) == 0) == (len(paths) == 0)"],
                 uses=["ospath"], serves=["C01", "C03", "C15", "C16", "C19"])

"""Contracts for gwf.core"""
from pyvc import ty as T


def install(eng):
    vc = eng.vc
    LP = T.ListV(vc.Path)
    # ---- Target
    eng.contract("gwf.core:Target.flattened_outputs", self_type=vc.Target, params={"self": vc.Target}, returns=LP,
                 ensures=["elems(result) == Outs(self)", "(len(result) == 0) == (nleaves(self.outputs) == 0)"],
                 trusted=True, uses=["tree"], serves=["C01", "C03", "C04", "C15", "C16"],
                 note="TODO verify against _flatten/_norm_paths")
    eng.contract("gwf.core:Target.flattened_inputs", self_type=vc.Target, params={"self": vc.Target}, returns=LP,
                 ensures=["elems(result) == Ins(self)", "(len(result) == 0) == (nleaves(self.inputs) == 0)"],
                 trusted=True, uses=["tree"], serves=["C01", "C03", "C04"])
    # ---- filesystem interface
    eng.contract("iface:Fs.exists", self_type=vc.Fs, params={"self": vc.Fs, "path": vc.Path}, returns=T.BOOL,
                 returns_expr="fs_exists(self, path)", trusted=True)
    eng.contract("iface:Fs.changed_at", self_type=vc.Fs, params={"self": vc.Fs, "path": vc.Path}, returns=T.REAL,
                 returns_expr="fs_mtime(self, path)", ensures=["fs_exists(self, path)"],
                 raises={"FileNotFoundError": "not fs_exists(self, path)"}, trusted=True, uses=["fs"])
    # ---- path normalisation (C03, C19): string level kept abstract, os.path algebra trusted
    eng.contract("gwf.core:_norm_path", params={"working_dir": vc.Path, "path": vc.Path}, returns=vc.Path,
                 ensures=["result == Canon(working_dir, path)"], uses=["ospath"],
                 serves=["C03", "C01", "C15", "C19"])

    def replay_norm_path(eng, ob, model, seed):
        """enumerative concretiser: spellings over segments {a, ., .., ''} up to 3 segments (bounded, replay only)"""
        import itertools, os
        from gwf.core import _norm_path
        segs = ["a", ".", "..", "b"]
        tried = 0
        for wd in ("/w", "/w/d"):
            for k in (1, 2, 3):
                for parts in itertools.product(segs, repeat=k):
                    for lead in ("", "/", "/w/"):
                        p = lead + "/".join(parts)
                        tried += 1
                        want = os.path.normpath(os.path.join(wd, p))
                        got = _norm_path(wd, p)
                        if got != want:
                            return {"failed_on_real_code": True, "witness_class": "absolute-not-normalised"
                                    if os.path.isabs(p) else "other",
                                    "input": {"working_dir": wd, "path": p}, "observed": got, "required": want,
                                    "candidates_tried": tried, "call": "gwf.core._norm_path(working_dir, path)"}
        return {"failed_on_real_code": False, "candidates_tried": tried}

    eng.replayers["gwf.core:_norm_path"] = replay_norm_path

"""Contracts for gwf.core"""
from pyvc import ty as T


def install(eng):
    vc = eng.vc
    LP = T.ListV(vc.Path)
    # ---- Target
    eng.contract("gwf.core:Target.flattened_outputs", self_type=vc.Target, params={"self": vc.Target}, returns=LP,
                 ensures=["elems(result) == Outs(self)", "(len(result) == 0) == (nleaves(self.outputs) == 0)"],
                 trusted=True, uses=["tree"], serves=["C01", "C03", "C04", "C15", "C16"],
                 note="TODO verify against _flatten/_norm_paths")
    eng.contract("gwf.core:Target.flattened_inputs", self_type=vc.Target, params={"self": vc.Target}, returns=LP,
                 ensures=["elems(result) == Ins(self)", "(len(result) == 0) == (nleaves(self.inputs) == 0)"],
                 trusted=True, uses=["tree"], serves=["C01", "C03", "C04"])
    # ---- filesystem interface
    eng.contract("iface:Fs.exists", self_type=vc.Fs, params={"self": vc.Fs, "path": vc.Path}, returns=T.BOOL,
                 returns_expr="fs_exists(self, path)", trusted=True)
    eng.contract("iface:Fs.changed_at", self_type=vc.Fs, params={"self": vc.Fs, "path": vc.Path}, returns=T.REAL,
                 returns_expr="fs_mtime(self, path)", ensures=["fs_exists(self, path)"],
                 raises={"FileNotFoundError": "not fs_exists(self, path)"}, trusted=True, uses=["fs"])
    # ---- spec hashes interface
    eng.contract("iface:SpecHashes.has_changed", self_type=vc.Hashes, params={"self": vc.Hashes, "target": vc.Target},
                 returns=T.Opt(vc.Hash), ensures=["(result is not None) == Changed(self, target)"], trusted=True)

"""Contracts for gwf.scheduling"""
from pyvc import ty as T
from pyvc.core import Loop


def install(eng):
    vc = eng.vc
    eng.contract(
        "gwf.scheduling:should_run",
        params={"target": vc.Target, "fs": vc.Fs, "spec_hashes": vc.Hashes}, returns=T.BOOL,
        requires=["all(fs_exists(fs, p) for p in Ins(target))"],
        ensures=["result == Stale(target, fs, spec_hashes)"],   # C01, taken from the statement
        loops={1: Loop(inv=["all(fs_exists(fs, p) for p in seen1)"], seen="seen1")},
        uses=["tree", "fs"], serves=["C01", "C05", "C06", "C18"])

    # ------------------------------------------------------------------ replay (CPython, real function)
    def replay_should_run(eng, ob, model, seed):
        """model-guided enumerative concretiser: tree shapes and the spec-change flag come from the
        model; file-system states are enumerated over a small pool (bounded, replay only)."""
        import itertools
        import gwf.scheduling as S
        from gwf.core import Target
        from replay.common import tree_to_py, model_tree
        tsym = eng.entry_state.env["target"].z
        cnt = itertools.count()
        outs = tree_to_py(eng, model_tree(eng, model, tsym, "outputs"), cnt, "o")
        ins = tree_to_py(eng, model_tree(eng, model, tsym, "inputs"), cnt, "i")
        changed = bool(model.eval(eng.vc.f_changed(eng.entry_state.env["spec_hashes"].z, tsym), model_completion=True))
        tgt = Target(name="T", inputs=ins, outputs=outs, options={}, working_dir="/w")
        O, I = sorted(set(tgt.flattened_outputs())), sorted(set(tgt.flattened_inputs()))
        tried = 0
        for ex in itertools.product([True, False], repeat=len(O)):
            for mt in itertools.product([1.0, 2.0], repeat=len(O) + len(I)):
                tried += 1
                if tried > 4096:
                    break
                exists = dict(zip(O, ex))
                exists.update({p: True for p in I})   # precondition: inputs exist
                mtime = dict(zip(O + I, mt))

                class FS:
                    def exists(self, p):
                        return exists[p]

                    def changed_at(self, p):
                        if not exists[p]:
                            raise FileNotFoundError(p)
                        return mtime[p]

                class H:
                    def has_changed(self, t):
                        return "h" if changed else None

                want = (changed or not O or any(not exists[o] for o in O)
                        or any(mtime[i] > mtime[o] for i in I for o in O))
                try:
                    got = S.should_run(tgt, FS(), H())
                except Exception as e:  # an escaping exception also violates the contract
                    got = f"raised {type(e).__name__}"
                if got != want:
                    return {"failed_on_real_code": True, "witness_class": "outputs-without-files" if not O else "other",
                            "input": {"inputs": ins, "outputs": outs, "exists": {k: v for k, v in exists.items()},
                                      "mtime": mtime, "spec_changed": changed},
                            "observed": got, "required": want, "candidates_tried": tried,
                            "call": "gwf.scheduling.should_run(Target(inputs, outputs), fs, spec_hashes)"}
        return {"failed_on_real_code": False, "candidates_tried": tried,
                "note": "no candidate from the model's tree shapes failed on the real function"}

    eng.replayers["gwf.scheduling:should_run"] = replay_should_run

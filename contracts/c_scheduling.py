"""Contracts for gwf.scheduling"""
from pyvc import ty as T
from pyvc.core import Loop


def install(eng):
    vc = eng.vc
    eng.contract(
        "gwf.scheduling:should_run",
        params={"target": vc.Target, "fs": vc.Fs, "spec_hashes": vc.Hashes}, returns=T.BOOL,
        requires=["all(fs_exists(fs, p) for p in Ins(target))"],
        ensures=["result == Stale(target, fs, spec_hashes)"],   # C01, taken from the statement
        loops={1: Loop(inv=["all(fs_exists(fs, p) for p in seen1)"], seen="seen1")},
        uses=["tree", "fs"], serves=["C01", "C05", "C06", "C18"])

"""Contracts for gwf.scheduling"""
from pyvc import ty as T
from pyvc.core import Loop


def install(eng):
    vc = eng.vc
    eng.contract(
        "gwf.scheduling:should_run",
        params={"target": vc.Target, "fs": vc.Fs, "spec_hashes": vc.Hashes}, returns=T.BOOL,
        requires=["all(fs_exists(fs, p) for p in Ins(target))"],
        ensures=["result == Stale(target, fs, spec_hashes)"],   # C01, taken from the statement
        loops={1: Loop(inv=["all(fs_exists(fs, p) for p in seen1)"], seen="seen1")},
        uses=["tree", "fs"], serves=["C01", "C05", "C06", "C18"])

    # ------------------------------------------------------------------ replay (CPython, real function)
    def replay_should_run(eng, ob, model, seed):
        """model-guided enumerative concretiser: tree shapes and the spec-change flag come from the
        model; file-system states are enumerated over a small pool (bounded, replay only)."""
        import itertools
        import gwf.scheduling as S
        from gwf.core import Target
        from replay.common import tree_to_py, model_tree
        tsym = eng.entry_state.env["target"].z
        cnt = itertools.count()
        outs = tree_to_py(eng, model_tree(eng, model, tsym, "outputs"), cnt, "o")
        ins = tree_to_py(eng, model_tree(eng, model, tsym, "inputs"), cnt, "i")
        changed = bool(model.eval(eng.vc.changed(eng.entry_state, eng.entry_state.env["spec_hashes"].z, tsym), model_completion=True))
        tgt = Target(name="T", inputs=ins, outputs=outs, options={}, working_dir="/w")
        O, I = sorted(set(tgt.flattened_outputs())), sorted(set(tgt.flattened_inputs()))
        tried = 0
        for ex in itertools.product([True, False], repeat=len(O)):
            for mt in itertools.product([1.0, 2.0], repeat=len(O) + len(I)):
                tried += 1
                if tried > 4096:
                    break
                exists = dict(zip(O, ex))
                exists.update({p: True for p in I})   # precondition: inputs exist
                mtime = dict(zip(O + I, mt))

                class FS:
                    def exists(self, p):
                        return exists[p]

                    def changed_at(self, p):
                        if not exists[p]:
                            raise FileNotFoundError(p)
                        return mtime[p]

                class H:
                    def has_changed(self, t):
                        return "h" if changed else None

                want = (changed or not O or any(not exists[o] for o in O)
                        or any(mtime[i] > mtime[o] for i in I for o in O))
                try:
                    got = S.should_run(tgt, FS(), H())
                except Exception as e:  # an escaping exception also violates the contract
                    got = f"raised {type(e).__name__}"
                if got != want:
                    return {"failed_on_real_code": True, "witness_class": "outputs-without-files" if not O else "other",
                            "input": {"inputs": ins, "outputs": outs, "exists": {k: v for k, v in exists.items()},
                                      "mtime": mtime, "spec_changed": changed},
                            "observed": got, "required": want, "candidates_tried": tried,
                            "call": "gwf.scheduling.should_run(Target(inputs, outputs), fs, spec_hashes)"}
        return {"failed_on_real_code": False, "candidates_tried": tried,
                "note": "no candidate from the model's tree shapes failed on the real function"}

    eng.replayers["gwf.scheduling:should_run"] = replay_should_run

    # ================================================================== schedule (C02, C05, C09)
    FnRef = vc.FnRef
    LT = T.ListV(vc.Target)
    CacheT = T.DictT(vc.Target, vc.Status)
    GHOSTS = ["ghost:log_pos", "ghost:log_deps", "ghost:log_n", "SpecHashes.hashes", "Backend._tracked_jobs",
              "Backend._job_states", "Target.options", "ghost:sched_accepted", "ghost:sched_deps",
              "ghost:sched_target"]

    eng.contract("iface:status_func", params={"target": vc.Target}, returns=vc.BStatus,
                 returns_expr="BNow(target)", trusted=True, pure=True,
                 note="the backend's current answer for the target (view BNow of the tracked-job tables, C08)")
    eng.contract(
        "iface:submit_func", params={"target": vc.Target, "dependencies": LT}, trusted=True,
        requires=["target not in log_pos",    # C02: at most one submission per target per run
                  "InT(target)", "all(InT(d) and DepOK(d) for d in dependencies)"],   # prerequisites have job ids
        modifies=GHOSTS,
        ensures=["forall(lambda u: (u in log_pos) == (u in old(log_pos) or u == target), Target)",
                 "log_pos[target] == old(log_n)", "log_n == old(log_n) + 1",
                 "all(log_pos[u] == old(log_pos)[u] for u in old(dom(log_pos)))",
                 "log_deps[target] == elems(dependencies)",
                 "forall(lambda u: implies(u != target, log_deps[u] == old(log_deps)[u]), Target)",
                 "DepOK(target)", "forall(lambda u: implies(old(DepOK(u)), DepOK(u)), Target)",
                 "forall(lambda u: implies(u.name != target.name, BNow(u) == old(BNow(u))), Target)",
                 "forall(lambda u, h: implies(u.name != target.name, Changed(h, u) == old(Changed(h, u))), "
                 "Target, Hashes)",
                 # C05: a callback that does not submit (status, dry run) changes nothing at all
                 "implies(dry_mode, sched_accepted == old(sched_accepted))",
                 "implies(dry_mode, the_backend._tracked_jobs == old(the_backend._tracked_jobs))",
                 "implies(dry_mode, forall(lambda u: BNow(u) == old(BNow(u)), Target))",
                 "implies(dry_mode, forall(lambda u, h: Changed(h, u) == old(Changed(h, u)), Target, Hashes))"],
        raises={"Exception": {"cond": "True", "modifies": []}},   # a rejected submission changes nothing
        note="interface of the submit callback; the three real callbacks are checked against it")

    # invariant shared by schedule / _schedule / _cached_schedule (all names are the closure's own)
    STATIC = [
        "forall(lambda u, v: implies(InT(u) and InT(v) and u.name == v.name, u == v), Target, Target)",   # C19
        "forall(lambda u, d: implies(d in deps0(u), InT(d) and InT(u)), Target, Target)",
        "forall(lambda u, d: (d in DepsOf(graph, u)) == (d in deps0(u)), Target, Target)",
        # acyclic: the cycle check's finishing times strictly decrease along dependencies (C04)
        "forall(lambda u, d: implies(d in deps0(u), 0 <= fin[d] and fin[d] < fin[u]), Target, Target)",
        # every input is an existing file or an output of a direct dependency (Graph invariant, C04)
        "forall(lambda u, p: implies(InT(u) and p in Ins(u), fs_exists(fs, p) or any(p in Outs(a) for a in deps0(u))), Target, Path)",
        "forall(lambda u, p: implies(not stale0(u) and p in Outs(u), fs_exists(fs, p)), Target, Path)",
    ]
    LOGINV = [
        "implies(dry_mode, sched_accepted == acc0)",
        "implies(dry_mode, the_backend._tracked_jobs == trk0)",
        "implies(dry_mode, forall(lambda u: BNow(u) == bstat0(u), Target))",
        "implies(dry_mode, forall(lambda u, h: Changed(h, u) == chg0(h, u), Target, Hashes))",
        "log_n >= 0",
        "all(Needs(SpecF(u)) and X(u) for u in log_pos)",
        "all(0 <= log_pos[u] and log_pos[u] < log_n for u in log_pos)",
        "all(log_deps[u] == setof(lambda d: d in deps0(u) and SpecF(d) != Status.COMPLETED, Target) for u in log_pos)",
        "all(log_pos[d] < log_pos[u] for u in log_pos for d in log_deps[u] if d in log_pos)",
        "all(log_pos[u] != log_pos[v] for u in log_pos for v in log_pos if u != v)",
    ]
    INV = STATIC + LOGINV + [
        "all(cache[u] == SpecF(u) and X(u) for u in cache)",
        "all(d in cache for u in cache for d in deps0(u))",
        "all((u in log_pos) == Needs(SpecF(u)) for u in cache)",
        "all(u in cache for u in log_pos)",
        # targets not decided yet still look as they did when the run started
        "forall(lambda u: implies(InT(u) and u not in cache, BNow(u) == bstat0(u) and "
        "Stale(u, fs, spec_hashes) == stale0(u)), Target)",
        # every decided target that is not complete has a job id a later submission can name (C07)
        "all(DepOK(u) for u in cache if SpecF(u) != Status.COMPLETED)",
        "forall(lambda u: implies(InT(u) and bstat0(u) != BackendStatus.UNKNOWN, DepOK(u)), Target)",
    ]
    MONO = ["subset(dom(old(cache)), dom(cache))",
            "all(rank(u) <= rank(target) for u in cache if u not in old(cache))"]
    CAPT = {"graph": vc.Graph, "fs": vc.Fs, "spec_hashes": vc.Hashes, "cache": CacheT,
            "status_func": FnRef("iface:status_func"), "submit_func": FnRef("iface:submit_func"),
            "_schedule": FnRef("gwf.scheduling:schedule._schedule"),
            "_cached_schedule": FnRef("gwf.scheduling:schedule._cached_schedule")}
    MODS = ["cache", "Graph.dependencies"] + GHOSTS
    EXC = {"Exception": {"cond": "True", "ensures": STATIC + LOGINV}}
    USES = ["spec", "cone", "fs"]
    HINTS = ["forall(lambda u: deps0(u) == NoTargets and Ins(u) == NoPaths and Outs(u) == NoPaths, Target)",
             "dom(log_pos) == NoTargets", "log_n == 0", "dom(graph.dependencies) == NoTargets"]
    HINTS_C = HINTS + ["dom(cache) == NoTargets"]

    eng.contract(
        "gwf.scheduling:schedule._cached_schedule", shards=2, params={"target": vc.Target}, returns=vc.Status,
        captures=CAPT, requires=INV + ["X(target)", "InT(target)"], modifies=MODS,
        ensures=INV + MONO + ["target in cache", "result == cache[target]"],
        raises=EXC, decreases="tup(rank(target), 1)", rec_group="schedule", uses=USES, cover_hints=HINTS_C, serves=["C02", "C05", "C09"])

    eng.contract(
        "gwf.scheduling:schedule._schedule", shards=4, params={"target": vc.Target}, returns=vc.Status,
        captures=CAPT, locals={"submitted_deps": LT},
        requires=INV + ["X(target)", "InT(target)", "target not in cache"], modifies=MODS,
        ensures=STATIC + LOGINV + [
            "all(cache[u] == SpecF(u) and X(u) for u in cache)",
            "all(d in cache for u in cache for d in deps0(u))",
            "all((u in log_pos) == Needs(SpecF(u)) for u in cache)",
            "all(u in cache or u == target for u in log_pos)",
            "forall(lambda u: implies(InT(u) and u not in cache and u != target, BNow(u) == bstat0(u) and "
            "Stale(u, fs, spec_hashes) == stale0(u)), Target)",
            "all(DepOK(u) for u in cache if SpecF(u) != Status.COMPLETED)",
            "forall(lambda u: implies(InT(u) and bstat0(u) != BackendStatus.UNKNOWN, DepOK(u)), Target)",
            "implies(SpecF(target) != Status.COMPLETED, DepOK(target))",
            "subset(dom(old(cache)), dom(cache))",
            "all(rank(u) < rank(target) for u in cache if u not in old(cache))",
            "target not in cache", "result == SpecF(target)", "all(d in cache for d in deps0(target))",
            "(target in log_pos) == Needs(SpecF(target))"],
        loops={1: Loop(seen="sd", inv=INV + [
            "target not in cache", "X(target)", "InT(target)", "all(d in cache for d in sd)",
            "elems(submitted_deps) == setof(lambda d: d in sd and SpecF(d) != Status.COMPLETED, Target)",
            "subset(dom(old(cache)), dom(cache))",
            "all(rank(u) < rank(target) for u in cache if u not in old(cache))"])},
        raises=EXC, decreases="tup(rank(target), 0)", rec_group="schedule", uses=USES, cover_hints=HINTS_C, serves=["C02", "C05", "C09"])

    eng.contract(
        "gwf.scheduling:schedule",
        params={"endpoints": vc.TargetSet, "graph": vc.Graph, "fs": vc.Fs, "spec_hashes": vc.Hashes,
                "status_func": FnRef("iface:status_func"), "submit_func": FnRef("iface:submit_func")},
        returns=CacheT, locals={"cache": CacheT},
        requires=[r for r in STATIC if "stale0" not in r] + [
            "dom(log_pos) == NoTargets", "log_n == 0", "all(InT(e) for e in endpoints)"],
        # definitions: the oracle's inputs are the state at the start of the run; X is an ARBITRARY set that
        # contains the endpoints and is closed under dependencies (axiom group `cone`)
        defines=["bstat0", "stale0", "SpecF", "X", "chg0", "acc0", "trk0"],
        entry_assume=[
            "forall(lambda u: BNow(u) == bstat0(u) and Stale(u, fs, spec_hashes) == stale0(u), Target)",
            "forall(lambda u, h: Changed(h, u) == chg0(h, u), Target, Hashes)", "sched_accepted == acc0", "the_backend._tracked_jobs == trk0",
            "all(X(e) for e in endpoints)"],
        modifies=["Graph.dependencies"] + GHOSTS,
        ensures=[
            # C02 "iff it lies in the dependency cone": result keys are closed, contain the endpoints, and lie in
            # EVERY closed superset X of the endpoints (X is an arbitrary uninterpreted predicate) = the least one
            "all(e in result for e in endpoints)",
            "all(d in result for u in result for d in deps0(u))",
            "all(X(u) for u in result)",
            "all(result[u] == SpecF(u) for u in result)",                       # C01/C02/C05: status table
            "forall(lambda u: (u in log_pos) == (u in result and Needs(SpecF(u))), Target)",   # submitted iff
        ] + LOGINV,                                                           # exact prerequisites, order, once
        loops={1: Loop(seen="se", inv=INV + ["all(e in cache for e in se)"])},
        raises=EXC, uses=USES, cover_hints=HINTS, serves=["C02", "C05", "C09"])


"""Contracts for the submit callbacks and drivers of gwf.scheduling: C05, C09, C10, C18."""
import z3
from pyvc import ty as T
from pyvc.core import Loop, V


def install(eng):
    vc = eng.vc
    B, H, LT = vc.Backend, vc.Hashes, T.ListV(vc.Target)
    ic = eng.contracts["iface:submit_func"]
    # a rejected submission may already have rewritten target.options (C10); nothing else changes
    ic.raises = {"Exception": {"cond": "True", "modifies": ["Target.options"]}}
    LOG = ["ghost:log_pos", "ghost:log_deps", "ghost:log_n"]

    def log_event(e, st, vals):
        """'Would submit %s' is the observable output of a dry run: it is the submission log entry"""
        (t,) = vals
        lp, ln = st.ghost["log_pos"], st.ghost["log_n"]
        dt = lp.ty
        st = st.set_ghost("log_pos", V(dt, dt.mk(z3.Store(dt.dom(lp.z), t.z, True), z3.Store(dt.vals(lp.z), t.z, ln.z))))
        return st.set_ghost("log_n", V(T.INT, ln.z + 1))

    PARAMS = {"target": vc.Target, "dependencies": LT, "backend": B, "spec_hashes": H}
    NOCHANGE = ["forall(lambda u: BNow(u) == old(BNow(u)) and DepOK(u) == old(DepOK(u)), Target)",
                "sched_accepted == old(sched_accepted)", "the_backend._tracked_jobs == old(the_backend._tracked_jobs)",
                "forall(lambda u, h: Changed(h, u) == old(Changed(h, u)), Target, Hashes)"]
    LOGPOST = ["forall(lambda u: (u in log_pos) == (u in old(log_pos) or u == target), Target)",
               "log_pos[target] == old(log_n)", "log_n == old(log_n) + 1",
               "all(log_pos[u] == old(log_pos)[u] for u in old(dom(log_pos)) if u != target)",
               "log_deps == store(old(log_deps), target, elems(dependencies))"]
    eng.contract("gwf.scheduling:_submit_dryrun", params=PARAMS, modifies=LOG,
                 log_events={"Would submit %s": log_event},
                 ghost_exit=[("log_deps", "store(log_deps, target, elems(dependencies))")],
                 ensures=LOGPOST + NOCHANGE,
                 serves=["C05", "C18"], note="C05: a dry run logs and changes nothing")
    eng.contract("gwf.scheduling:_submit_noop", params=PARAMS, modifies=LOG,
                 ghost_exit=[("log_pos", "store(log_pos, target, log_n)"), ("log_n", "log_n + 1"),
                             ("log_deps", "store(log_deps, target, elems(dependencies))")],
                 ensures=LOGPOST + NOCHANGE,
                 serves=["C05", "C18"],
                 note="C05: status changes nothing; the ghost log entry only records that the target would be submitted")

    bc = eng.contracts["gwf.backends.base:TrackingBackend.submit"]
    sub = lambda s: s.replace("self.", "backend.")
    eng.contract(
        "gwf.scheduling:submit_backend", params=PARAMS,
        locals={"new_options": vc.Options},
        requires=["backend == the_backend", "all(d.name in backend._tracked_jobs for d in dependencies)"],
        modifies=["target.options", "backend._tracked_jobs", "backend._job_states", "spec_hashes.hashes",
                  "ghost:sched_accepted", "ghost:sched_deps", "ghost:sched_target"] + LOG,
        ensures=[sub(e) for e in bc.ensures] + [
            # C10: resolved options; C18: the hash is recorded once the submission was accepted
            "dict_eq(target.options, Resolved(backend.target_defaults, old(target.options)))",
            "not Changed(spec_hashes, target)",
            "forall(lambda u: implies(u.name != target.name, Changed(spec_hashes, u) == old(Changed(spec_hashes, u))), Target)"],
        # C09/C18: a rejected submission records no hash and tracks no job
        raises={"BackendError": {"cond": "True", "modifies": ["target.options"]}},
        loops={1: Loop(seen="so", inv=[
            "forall(lambda k: (k in new_options) == (k in Chain(backend.target_defaults, old(target.options)) and "
            "not (tup(k, Chain(backend.target_defaults, old(target.options))[k]) in so and "
            "(k not in backend.target_defaults or Chain(backend.target_defaults, old(target.options))[k] is None))), OptKey)",
            "all(new_options[k] == Chain(backend.target_defaults, old(target.options))[k] for k in new_options)"])},
        serves=["C05", "C07", "C09", "C10", "C18"])

    # ---- refinement lemmas: the three real callbacks may be passed where schedule expects submit_func
    CL = {"backend": B, "spec_hashes": H}
    call = "IMPL(target, dependencies, backend=backend, spec_hashes=spec_hashes)"
    eng.refines("iface:submit_func", "gwf.scheduling:_submit_dryrun", CL, call.replace("IMPL", "_submit_dryrun"),
                closure_requires=["dry_mode"], serves=["C05"])
    eng.refines("iface:submit_func", "gwf.scheduling:_submit_noop", CL, call.replace("IMPL", "_submit_noop"),
                closure_requires=["dry_mode"], serves=["C05"])
    eng.refines("iface:submit_func", "gwf.scheduling:submit_backend", CL, call.replace("IMPL", "submit_backend"),
                closure_requires=["not dry_mode", "backend == the_backend"], serves=["C05", "C09"])
    eng.refines("iface:status_func", "gwf.backends.base:TrackingBackend.status", {"self": B}, "self.status(target)",
                closure_requires=["self == the_backend"], serves=["C05", "C08"])

"""Contracts for the scheduler operations of the cluster backends and the local client:
C07 (command lines), C08 (state tables and merging), C10 (job scripts, line-set level), C17 (cancel commands)."""
import re
import z3
from pyvc import ty as T
from pyvc.core import Loop, V, Exc, Unsupported
from pyvc.expr import BoundBuiltin


def install(eng):
    import gwf.backends.utils as U
    import gwf.backends.slurm as SL
    import gwf.backends.sge as SG
    import gwf.backends.lsf as LF
    import gwf.backends.local as LO
    vc = eng.vc
    J = vc.JobId
    LJ = T.ListT(J)                  # ids in order (batching, joins)
    LS = T.ListT(T.STR)
    JS = vc.JobStatesT
    BS = vc.BStatus
    # ---- strings that are only formatted, joined and compared structurally (uninterpreted, same symbol both sides)
    f_join = z3.Function("str_join", z3.StringSort(), LJ.sort(), z3.StringSort())
    f_joinset = z3.Function("str_join_set", z3.StringSort(), z3.ArraySort(z3.StringSort(), z3.BoolSort()), z3.StringSort())
    f_strip = z3.Function("str_strip", z3.StringSort(), z3.StringSort())
    f_idtext = None

    def m_join(e, bb, args, kw, st, sink, n):
        sep, x = bb.recv, args[0]
        if isinstance(x.ty, T.ListT) and x.ty.elem == J:
            yield st, V(T.STR, f_join(sep.z, x.z))
        elif isinstance(x.ty, T.ListV) and x.ty.elem is T.STR:
            yield st, V(T.STR, f_joinset(sep.z, x.ty.elems(x.z)))     # order abstracted: "exactly these pieces"
        else:
            raise Unsupported(f"str.join over {x.ty}", n)

    eng.method_rules[("Str", "join")] = m_join
    eng.fn("Join")(lambda e, st, sep, xs: V(T.STR, f_join(e.coerce(sep, T.STR).z, xs.z)))
    eng.fn("JoinSet")(lambda e, st, sep, xs: V(T.STR, f_joinset(e.coerce(sep, T.STR).z, xs.z)))
    eng.method_rules[("Str", "strip")] = lambda e, bb, a, kw, st, sink, n: iter([(st, V(T.STR, f_strip(bb.recv.z)))])
    eng.fn("Strip")(lambda e, st, s: V(T.STR, f_strip(s.z)))
    # an id is the token the scheduler uses in listings: stripping it changes nothing
    f_idof = z3.Function("id_of_text", z3.StringSort(), J.sort())        # text printed by the scheduler -> job id
    eng.coerce_hooks[("Str", J.name)] = lambda e, v: V(J, f_idof(v.z))
    eng.fn("IdOf")(lambda e, st, s: V(J, f_idof(s.z)))

    # ---- utils.call: the only way a scheduler command is run (ghost: last command)
    eng.ghost("call_exe", T.STR)
    eng.ghost("call_args", LS)
    eng.ghost("call_input", T.Opt(T.STR))
    eng.ghost("call_count", T.MapT(T.STR, T.INT))
    f_out = z3.Function("call_stdout", z3.StringSort(), LS.sort(), z3.IntSort(), z3.StringSort())
    eng.ghost("call_out", T.STR)
    CALL = ["ghost:call_exe", "ghost:call_args", "ghost:call_input", "ghost:call_count", "ghost:call_out"]
    # ---- the body of utils.call is verified against this contract (it used to be trusted). Library model:
    # shutil.which(name) is None or the path of an executable NAMED name (ExeName(path) == name);
    # subprocess.Popen(argv, stdin/stdout/stderr=PIPE, text mode) starts argv[0] with argv[1:]; communicate(input)
    # feeds input and returns (stdout, stderr) once the command ended with status `returncode`.
    import shutil
    import subprocess
    eng.ghost("call_status", T.INT)
    eng.ghost("call_err", T.STR)
    CALL = CALL + ["ghost:call_status", "ghost:call_err"]
    COUNTED = "call_count == store(old(call_count), executable_name, old(call_count)[executable_name] + 1)"
    eng.contract("gwf.backends.utils:call", params={"executable_name": T.STR, "args": LS, "input": T.Opt(T.STR)},
                 returns=T.STR, modifies=CALL,
                 ensures=["call_exe == executable_name", "call_args == args", "call_input == input", COUNTED,
                          # the command ran to the end, exited with status 0 and wrote no 'error:' to stderr
                          "call_status == 0", "'error:' not in call_err"],
                 raises={"BackendError": {"cond": "True", "ensures": [
                     # either the executable was not found (nothing ran) or it ran once and failed
                     "call_count == old(call_count) or (" + COUNTED + " and (call_status != 0 or 'error:' in call_err))"]}},
                 defaults={"input": V(T.Opt(T.STR), T.Opt(T.STR).none())}, serves=["C07", "C08", "C09", "C17"],
                 note="body verified over a model of shutil.which / subprocess.Popen / communicate (uninterpreted "
                      "outputs): exactly these arguments and this stdin; BackendError iff non-zero exit status or "
                      "'error:' on stderr")
    f_exename = z3.Function("exe_name", z3.StringSort(), z3.StringSort())
    ProcT = T.ObjT("CmdProc")
    eng.cls("CmdProc", consts={"argv0": T.STR, "pargs": LS, "returncode": T.INT})
    f_argv0 = eng.const_fn("CmdProc", "argv0", T.STR)
    f_pargs = eng.const_fn("CmdProc", "pargs", LS)
    f_rc = eng.const_fn("CmdProc", "returncode", T.INT)

    def r_which(e, args, kw, st, sink, n):
        nm = e.coerce(args[0], T.STR, n)
        ot = T.Opt(T.STR)
        r, st = e.fresh(ot, "exe", st)
        yield st.assume(z3.Implies(z3.Not(ot.is_none(r.z)), f_exename(ot.get(r.z)) == nm.z)), r

    eng.rules[shutil.which] = r_which

    def r_popen(e, args, kw, st, sink, n):
        def const(v):
            if v.ty is T.PY:
                return v.z
            if z3.is_int_value(v.z):
                return v.z.as_long()
            if z3.is_true(v.z) or z3.is_false(v.z):
                return z3.is_true(v.z)
            return None

        pipes = all(k in kw and const(kw[k]) == subprocess.PIPE for k in ("stdin", "stdout", "stderr"))
        text = any(k in kw and const(kw[k]) is True for k in ("universal_newlines", "text"))
        if len(args) != 1 or not pipes or not text or set(kw) - {"stdin", "stdout", "stderr", "universal_newlines", "text"}:
            raise Unsupported("subprocess.Popen: only Popen(argv, stdin=PIPE, stdout=PIPE, stderr=PIPE, text mode) is modelled", n)
        argv = e.coerce(args[0], LS, n)
        pr, st = e.fresh(ProcT, "proc", st)
        st = st.assume(z3.Length(argv.z) >= 1, f_argv0(pr.z) == argv.z[0],
                       f_pargs(pr.z) == z3.Extract(argv.z, 1, z3.Length(argv.z) - 1))
        yield st, pr

    eng.rules[subprocess.Popen] = r_popen

    def m_communicate(e, bb, a, kw, st, sink, n):
        inp = a[0] if a else kw.get("input")
        oi = T.Opt(T.STR)
        inp = e.coerce(inp, oi, n) if inp is not None else V(oi, oi.none())
        pr = bb.recv.z
        name = f_exename(f_argv0(pr))
        out, st = e.fresh(T.STR, "stdout", st)
        err, st = e.fresh(T.STR, "stderr", st)
        cnt = st.ghost["call_count"]
        st = st.set_ghost("call_exe", V(T.STR, name)).set_ghost("call_args", V(LS, f_pargs(pr)))
        st = st.set_ghost("call_input", inp).set_ghost("call_out", out).set_ghost("call_err", err)
        st = st.set_ghost("call_status", V(T.INT, f_rc(pr)))
        st = st.set_ghost("call_count", V(cnt.ty, z3.Store(cnt.z, name, z3.Select(cnt.z, name) + 1)))
        yield st, e.mk_tuple([out, err])

    eng.method_rules[("Obj_CmdProc", "communicate")] = m_communicate

    def unpack_call(e, f, n, st, sink):
        """call(exe, *args, input=...) and call(*cmd)"""
        c = eng.contracts["gwf.backends.utils:call"]
        pos = [a for a in n.args if not isinstance(a, __import__("ast").Starred)]
        star = [a.value for a in n.args if isinstance(a, __import__("ast").Starred)]
        if len(star) != 1 or any(k.arg is None for k in n.keywords):
            raise Unsupported("call(...) form", n)
        for st1, pv in e.ev_list(pos, st, sink):
            for st2, (sv,) in e.ev_list(star, st1, sink):
                for st3, kv in e.ev_list([k.value for k in n.keywords], st2, sink):
                    kw = {k.arg: v for k, v in zip(n.keywords, kv)}
                    sv = e.coerce(sv, LS, n) if not isinstance(sv.ty, T.ListT) else sv
                    if sv.ty != LS:
                        raise Unsupported(f"call(*{sv.ty})", n)
                    if pv:
                        exe, rest = pv[0], sv
                    else:
                        # call(*cmd): first element is the executable
                        exe = V(T.STR, sv.z[0])
                        rest = V(LS, z3.Extract(sv.z, 1, z3.Length(sv.z) - 1))
                    yield from e.call_contract(c, [exe, rest], kw, st3, sink, n)

    eng.unpack_rules[U.call] = lambda e, n, st, sink: unpack_call(e, None, n, st, sink)
    eng.rules[U.call] = lambda e, args, kw, st, sink, n: e.call_contract(
        eng.contracts["gwf.backends.utils:call"], [args[0], e.lift_collection([], LS) if len(args) == 1 else
                                                    seq_of(e, args[1:], n)], kw, st, sink, n)

    def seq_of(e, vs, n):
        zs = [z3.Unit(e.coerce(v, T.STR, n).z) for v in vs]
        return V(LS, z3.Concat(*zs) if len(zs) > 1 else zs[0])

    # ---- the three cluster backends' ops objects share one class hierarchy with the abstract Ops
    for cname, mod in (("SlurmOps", "gwf.backends.slurm"), ("SGEOps", "gwf.backends.sge"), ("LSFOps", "gwf.backends.lsf")):
        eng.cls(cname, bases=["Ops"], root="Ops", pyname=f"{mod}:{cname}")
    eng.classes["Ops"].consts.update({"log_mode": T.STR, "accounting_enabled": T.BOOL})
    SO, GO, LFO = (T.ObjT(c, root="Ops") for c in ("SlurmOps", "SGEOps", "LSFOps"))
    f_script = z3.Function("script_of", vc.Ops.sort(), vc.Target.sort(), z3.StringSort())
    eng.fn("ScriptOf")(lambda e, st, o, t: V(T.STR, f_script(o.z, t.z)))
    for ty_, key in ((SO, "gwf.backends.slurm:SlurmOps"), (GO, "gwf.backends.sge:SGEOps"), (LFO, "gwf.backends.lsf:LSFOps")):
        eng.contract(key + ".compile_script", self_type=ty_, params={"self": ty_, "target": vc.Target}, returns=T.STR,
                     returns_expr="ScriptOf(self, target)", trusted=True, pure=True,
                     note="C10: checked by the bounded stand-in `job-scripts-under-bash` (scripts executed by bash); "
                          "the unbounded line-sequence contract is not written (order of option lines)")
    S7 = ["C07"]
    # C07 Slurm: sbatch --parsable [--dependency=afterok:id:id...], script on stdin, id = printed line stripped
    eng.contract(
        "gwf.backends.slurm:SlurmOps.submit_target", self_type=SO,
        params={"self": SO, "target": vc.Target, "dependencies": LJ}, returns=J, locals={"args": LS},
        modifies=CALL,
        ensures=["call_exe == 'sbatch'", "call_input is not None and the(call_input) == ScriptOf(self, target)",
                 "implies(len(dependencies) == 0, call_args == seq1('--parsable'))",
                 "implies(len(dependencies) > 0, call_args == seq2('--parsable', '--dependency=afterok:' + Join(':', dependencies)))",
                 "result == IdOf(Strip(CallOut()))"],
        raises={"BackendError": "True"}, serves=S7)
    # C07 SGE: qsub -terse [-hold_jid id,id...]; the id is the printed line WITHOUT its trailing newline
    eng.contract(
        "gwf.backends.sge:SGEOps.submit_target", self_type=GO,
        params={"self": GO, "target": vc.Target, "dependencies": LJ}, returns=J, locals={"args": LS}, modifies=CALL,
        ensures=["call_exe == 'qsub'", "call_input is not None and the(call_input) == ScriptOf(self, target)",
                 "implies(len(dependencies) == 0, call_args == seq1('-terse'))",
                 "implies(len(dependencies) > 0, call_args == seq3('-terse', '-hold_jid', Join(',', dependencies)))",
                 "result == IdOf(Strip(CallOut()))"],
        raises={"BackendError": "True"}, serves=S7 + ["C08"])
    for k, ty_, exe, extra in (("gwf.backends.slurm:SlurmOps.cancel_job", SO, "scancel", "seq2('--verbose', IdText(job_id))"),
                               ("gwf.backends.sge:SGEOps.cancel_job", GO, "qdel", "seq1(IdText(job_id))"),
                               ("gwf.backends.lsf:LSFOps.cancel_job", LFO, "bkill", "seq1(IdText(job_id))")):
        eng.contract(k, self_type=ty_, params={"self": ty_, "job_id": J}, modifies=CALL,
                     ensures=[f"call_exe == '{exe}'", f"call_args == {extra}"],       # C17: exactly that job
                     raises={"BackendError": "True"}, serves=["C17"])
    f_idtext = z3.Function("id_text", J.sort(), z3.StringSort())
    eng.str_hooks["JobId"] = lambda e, v: V(T.STR, f_idtext(v.z))      # str(job id) is its text
    eng.fn("IdText")(lambda e, st, j: V(T.STR, f_idtext(j.z)))
    eng.coerce_hooks[(J.name, "Str")] = lambda e, v: V(T.STR, f_idtext(v.z))
    eng.fn("CallOut")(lambda e, st: V(T.STR, st.ghost["call_out"].z))
    c = eng.contracts["gwf.backends.utils:call"]
    c.ensures = list(c.ensures) + ["result == call_out"]
    for nm, k in (("seq1", 1), ("seq2", 2), ("seq3", 3)):
        eng.fn(nm)(lambda e, st, *xs: seq_of(e, xs, None))

    # ================================================================== C08: Slurm state sources and their merge
    eng.ghost("sacct_asked", T.SetT(J))           # ids some sacct call was asked about
    f_squeue = z3.Function("squeue_states", vc.Ops.sort(), JS.sort())
    f_sacct = z3.Function("sacct_states", vc.Ops.sort(), LJ.sort(), JS.sort())
    eng.fn("SqueueStates")(lambda e, st, o: V(JS, f_squeue(o.z)))
    eng.fn("SacctStates")(lambda e, st, o, b: V(JS, f_sacct(o.z, b.z)))
    eng.contract("gwf.backends.slurm:SlurmOps.get_job_states_from_squeue", self_type=SO,
                 params={"self": SO, "tracked_jobs": LJ}, returns=JS, trusted=True, modifies=CALL,
                 ensures=["dict_eq(result, SqueueStates(self))", "all(j in elems(tracked_jobs) for j in result)",
                          "call_count['sacct'] == old(call_count['sacct'])"],
                 raises={"BackendError": "True"},
                 note="parses `squeue --format=%i;%t` lines (string level not under contract; table checked by the "
                      "bounded stand-in ops-state-tables)")
    eng.contract("gwf.backends.slurm:SlurmOps.get_job_states_from_sacct", self_type=SO,
                 params={"self": SO, "tracked_jobs": LJ}, returns=JS, trusted=True, modifies=CALL + ["ghost:sacct_asked"],
                 ensures=["dict_eq(result, SacctStates(self, tracked_jobs))", "all(j in elems(tracked_jobs) for j in result)",
                          "forall(lambda j: (j in sacct_asked) == (j in old(sacct_asked) or j in elems(tracked_jobs)), JobId)"],
                 raises={"BackendError": "True"},
                 note="parses `sacct --parsable2` lines (string level not under contract)")
    eng.contract(
        "gwf.backends.slurm:SlurmOps.get_job_states_from_sacct_batched", self_type=SO,
        params={"self": SO, "tracked_jobs": LJ, "batch_size": T.INT}, returns=JS, locals={"job_states": JS},
        trusted=True,     # the range/slice loop is not discharged (z3 sequence theory): bounded stand-in ops-state-tables
        requires=["batch_size > 0"], modifies=CALL + ["ghost:sacct_asked"],
        ensures=[
            # C08: the batches cover every tracked id (and nothing else)
            "forall(lambda j: (j in sacct_asked) == (j in old(sacct_asked) or j in elems(tracked_jobs)), JobId)",
            "all(j in elems(tracked_jobs) for j in result)"],
        raises={"BackendError": "True"}, defaults={"batch_size": V(T.INT, z3.IntVal(1024))},
        note="batches of 1024 ids: 'every index exactly once' is checked with 2500 ids by the bounded stand-in only",
        loops={1: Loop(it="pos", inv=[
            "pos >= 0",
            "forall(lambda j: (j in sacct_asked) == (j in old(sacct_asked) or any(tracked_jobs[i] == j for i in Idx if 0 <= i and i < pos and i < len(tracked_jobs))), JobId)",
            "all(j in elems(tracked_jobs) for j in job_states)"])},
        serves=["C08", "C02", "C05", "C06", "C09"])
    eng.universe("Idx", T.INT)
    eng.contract(
        "gwf.backends.slurm:SlurmOps.get_job_states", self_type=SO, params={"self": SO, "tracked_jobs": LJ},
        returns=JS, locals={"job_states": JS}, modifies=CALL + ["ghost:sacct_asked"],
        ensures=[
            # C08: the live queue takes precedence over the accounting database ...
            "all(result[j] == SqueueStates(self)[j] for j in SqueueStates(self))",
            "all(j in result for j in SqueueStates(self))",
            "all(j in elems(tracked_jobs) for j in result)",
            # ... and with accounting disabled the database is never consulted
            "implies(not self.accounting_enabled, call_count['sacct'] == old(call_count['sacct']) and "
            "sacct_asked == old(sacct_asked) and dict_eq(result, SqueueStates(self)))"],
        raises={"BackendError": "True"}, serves=["C08", "C02", "C05", "C06", "C09"])
    bc = eng.contracts["gwf.backends.slurm:SlurmOps.get_job_states_from_sacct_batched"]
    bc.ensures = list(bc.ensures) + ["implies(len(tracked_jobs) == 0, call_count['sacct'] == old(call_count['sacct']))"] if False else bc.ensures

    # ================================================================== C07 LSF: bsub [-w 'done(id) && done(id)...']
    Match = T.Atom("Match")
    f_search = z3.Function("re_search", z3.StringSort(), z3.StringSort(), T.Opt(Match).sort())
    f_group = z3.Function("re_group", Match.sort(), z3.IntSort(), z3.StringSort())
    eng.rules[re.search] = lambda e, args, kw, st, sink, n: iter([(st, V(T.Opt(Match), f_search(
        e.coerce(args[0], T.STR, n).z, e.coerce(args[1], T.STR, n).z)))])
    eng.subscript_hooks["Match"] = lambda e, base, idx, st, sink, n: iter([(st, V(T.STR, f_group(base.z, e.coerce(idx, T.INT, n).z)))])
    eng.fn("Group1")(lambda e, st, pat, s: V(T.STR, f_group(T.Opt(Match).get(f_search(e.coerce(pat, T.STR).z, s.z)), z3.IntVal(1))))
    f_s2b = z3.Function("encode_text", z3.StringSort(), vc.Bytes.sort())
    eng.coerce_hooks[("Str", vc.Bytes.name)] = lambda e, v: V(vc.Bytes, f_s2b(v.z))
    eng.contract(
        "gwf.backends.lsf:LSFOps.submit_target", self_type=LFO,
        params={"self": LFO, "target": vc.Target, "dependencies": LJ}, returns=J, locals={"args": LS},
        modifies=CALL + ["ghost:file_bytes", "ghost:disk_exists", "ghost:disk_valid"],
        ensures=["call_exe == 'bsub'", "call_input is not None and the(call_input) == ScriptOf(self, target)",
                 "implies(len(dependencies) == 0, len(call_args) == 0)",
                 # the job waits for done(id) of exactly the given ids, joined by &&
                 "implies(len(dependencies) > 0, call_args == seq2('-w', JoinSet(' && ', "
                 "setof(lambda t: any(t == 'done(' + IdText(j) + ')' for j in elems(dependencies)), Str))))",
                 "result == IdOf(Group1('Job <(\\\\d+)>', Strip(CallOut())))"],
        raises={"BackendError": "True",
                "TypeError": "True"},     # bsub exited 0 but printed no 'Job <n>': the id is unknown (not decided: C09)
        serves=S7)

"""Sidecar contracts for gwf. Each module has install(eng)."""
MODULES = ["vocab", "c_core", "c_hashes", "c_scheduling", "c_graph", "c_backend", "c_submit", "c_filtering", "c_conf", "c_plugins", "c_local", "c_ops", "c_workflow", "c_find", "c_lemmas", "c_enumerators"]


def install_all(eng, modules=None):
    import importlib
    for m in modules or MODULES:
        importlib.import_module("contracts." + m).install(eng)
    eng.finalize_async()

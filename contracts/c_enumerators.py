"""Registration of the bounded enumerative refuters (replay only; DESIGN 2.9)."""


def install(eng):
    from replay import enum_schedule, enum_graph, enum_backend, enum_conf, enum_cli
    SCHED = ["gwf.scheduling:schedule", "gwf.scheduling:schedule._schedule", "gwf.scheduling:schedule._cached_schedule",
             "gwf.scheduling:submit_workflow", "gwf.scheduling:get_status_map"]
    CALLBACKS = ["gwf.scheduling:submit_backend", "gwf.scheduling:_submit_dryrun", "gwf.scheduling:_submit_noop",
                 "refine:gwf.scheduling:submit_backend=>iface:submit_func",
                 "refine:gwf.scheduling:_submit_dryrun=>iface:submit_func",
                 "refine:gwf.scheduling:_submit_noop=>iface:submit_func",
                 "refine:gwf.backends.base:TrackingBackend.status=>iface:status_func"]
    GRAPH = ["gwf.core:Graph.from_targets", "gwf.core:check_for_circular_dependencies",
             "gwf.core:check_for_circular_dependencies.visitor", "gwf.core:Graph.endpoints", "gwf.core:_norm_path"]
    BACKEND = [f"gwf.backends.base:TrackingBackend.{m}" for m in
               ("submit", "close", "__exit__", "__enter__", "status", "cancel", "_init_tracked", "_init_status")]
    CONF = [f"gwf.conf:FileConfig.{m}" for m in ("get", "__getitem__", "__setitem__", "__delitem__", "items", "dump",
                                                  "get_namespace")] + \
           [f"gwf.conf:{m}" for m in ("try_int", "try_true", "try_false", "try_conv")]
    FILTERS = [k for k in eng.contracts if k.startswith(("gwf.filtering:", "dispatch:"))]
    eng.enumerator("schedule-small-dags", ["C01", "C02", "C05", "C06"], SCHED + ["gwf.scheduling:should_run"],
                   lambda seed, focus: enum_schedule.replay(None, None, None, seed), crosscheck=True)
    from replay import enum_stale
    eng.enumerator("should-run-small-files", ["C01"], ["gwf.scheduling:should_run"],
                   lambda seed, focus: enum_stale.replay(None, None, None, seed), crosscheck=True)
    CFS = [f"gwf.core:CachedFilesystem.{m}" for m in ("_lookup_file", "exists", "changed_at")]
    eng.enumerator("cached-filesystem", ["C01", "C03", "C04"], CFS,
                   lambda seed, focus: enum_stale.replay_fs(None, None, None, seed), crosscheck=True)
    eng.enumerator("graph-small-workflows", ["C03", "C04"], GRAPH,
                   lambda seed, focus: enum_graph.replay(None, None, None, seed), crosscheck=True)
    eng.enumerator("tracking-backend-scripts", ["C02", "C05", "C06", "C07", "C08", "C09", "C17"], BACKEND + CALLBACKS[:1],
                   lambda seed, focus: enum_backend.replay(None, None, None, seed), crosscheck=True)
    eng.enumerator("cancel-many-scripts", ["C17"], ["gwf.plugins.cancel:cancel_many", "gwf.plugins.cancel:cancel",
                                                     "gwf.backends.base:TrackingBackend.cancel"],
                   lambda seed, focus: enum_backend.replay_cancel(None, None, None, seed), crosscheck=True)
    eng.enumerator("config-scripts", ["C20"], CONF, lambda seed, focus: enum_conf.replay(None, focus, None, seed), crosscheck=True)
    eng.enumerator("cli-status-dryrun-run", ["C01", "C02", "C05", "C06", "C10", "C18"],
                   SCHED + CALLBACKS + ["gwf.plugins.run:run", "gwf.plugins.status:status"] + FILTERS, enum_cli.run_c05, crosscheck=True)
    # C06, second sentence (exact re-submission set after one change): no lemma generated, decided by this stand-in
    eng.enumerator("cli-rerun-after-one-change", ["C06"], SCHED + CALLBACKS + ["lemma:c06_convergence"], enum_cli.run_c06,
                   always=True)
    eng.enumerator("cli-interrupted-run", ["C09", "C02", "C05"], SCHED + CALLBACKS + BACKEND + ["gwf.plugins.run:run"], enum_cli.run_c09, crosscheck=True)
    HASHES = [k for k in eng.contracts if "SpecHashes" in k or k in ("gwf.core:get_spec_hashes", "gwf.core:hash_spec")]
    eng.enumerator("cli-spec-hashes", ["C18", "C01", "C06", "C15", "C16"], HASHES + CALLBACKS + ["gwf.plugins.run:run", "gwf.plugins.touch:touch",
                   "gwf.plugins.clean:clean", "gwf.plugins.touch:touch_workflow", "gwf.plugins.touch:touch_workflow._visit"],
                   enum_cli.run_c18, crosscheck=True)
    eng.enumerator("cli-clean", ["C15"], ["gwf.plugins.clean:clean", "gwf.plugins.clean:_delete_file"] + FILTERS,
                   enum_cli.run_c15, crosscheck=True)
    eng.enumerator("cli-touch", ["C16"], ["gwf.plugins.touch:touch", "gwf.plugins.touch:touch_workflow",
                                          "gwf.plugins.touch:touch_workflow._visit"] + FILTERS, enum_cli.run_c16, crosscheck=True)
    eng.enumerator("cli-cancel", ["C17"], ["gwf.plugins.cancel:cancel", "gwf.plugins.cancel:cancel_many",
                                           "gwf.backends.base:TrackingBackend.cancel"] + FILTERS, enum_cli.run_c17, crosscheck=True)
    # C03, last clause: `gwf info` prints the graph's relations (the info plugin has no deductive contract)
    eng.enumerator("cli-info", ["C03"], GRAPH, enum_cli.run_c03_info, always=True)
    # C04, last clause: no stack-depth / termination obligations are generated; decided (bounded) here. The
    # RecursionError on deep chains is known finding F04
    eng.enumerator("workflow-sizes", ["C04"], GRAPH + SCHED, enum_cli.run_c04_sizes, always=True)
    from replay import enum_local
    LOCAL = [k for k in eng.contracts if k.startswith("gwf.backends.local:")]
    eng.enumerator("local-pool-scenarios", ["C11", "C12", "C13", "C07"], LOCAL, lambda seed, focus: enum_local.replay(None, None, None, seed))
    eng.enumerator("local-server-clients", ["C14"], LOCAL, lambda seed, focus: enum_local.replay_server(None, None, None, seed),
                   crosscheck=True)
    # C08 for the local backend across a restart of the pool (F15): real pool twice, real clients
    eng.enumerator("local-pool-restart", ["C08", "C07"], LOCAL + BACKEND, lambda seed, focus: enum_local.replay_restart(None, None, None, seed),
                   always=True)
    from replay import enum_ops
    OPS = [k for k in eng.contracts if k.startswith(("gwf.backends.slurm:", "gwf.backends.sge:", "gwf.backends.lsf:",
                                                     "gwf.backends.utils:"))]
    eng.enumerator("ops-command-lines", ["C07"], OPS + BACKEND, enum_ops.run([enum_ops.check_submit, enum_ops.check_submit_history]), always=True)
    eng.enumerator("ops-command-lines-on-failure", ["C17"], OPS + BACKEND, enum_ops.run([enum_ops.check_submit]), crosscheck=True)
    eng.enumerator("ops-state-tables", ["C08"], OPS + BACKEND, enum_ops.run([enum_ops.check_states, enum_ops.check_job_tables]), always=True)
    eng.enumerator("ops-state-tables-crosscheck", ["C02", "C05", "C06", "C09"], OPS + BACKEND,
                   enum_ops.run([enum_ops.check_states, enum_ops.check_job_tables]), crosscheck=True)
    # C10: compile_script has no unbounded contract (order of option lines): this bounded stand-in decides that clause
    eng.enumerator("job-scripts-under-bash", ["C10"], OPS, enum_ops.run([enum_ops.check_scripts, enum_ops.check_logs, enum_ops.check_directives]), always=True)
    eng.enumerator("command-failure-kinds", ["C09", "C07", "C17"], ["gwf.backends.utils:call"] + OPS + BACKEND,
                   enum_ops.run([enum_ops.check_call_failures]), crosscheck=True)
    eng.enumerator("option-resolution", ["C10"], ["gwf.scheduling:submit_backend"] + CALLBACKS,
                   enum_ops.run([enum_ops.check_option_resolution]), crosscheck=True)
    WF = [k for k in eng.contracts if k.startswith(("gwf.workflow:", "gwf.utils:", "gwf.core:_check_path", "gwf.core:_has_nonprintable"))]
    # C19: map naming, find_workflow and invocation-directory independence have no deductive contract: this bounded
    # stand-in (real command line from the project root, a subdirectory and elsewhere with -f) decides those clauses
    eng.enumerator("cli-invocation-directory", ["C19"], WF, enum_cli.run_c19, always=True)
    # C20: flag > project configuration > default through cli.main (no deductive contract for cli.main)
    eng.enumerator("cli-configuration", ["C20"], CONF, enum_cli.run_c20_cli, always=True)

"""Contracts for the command plugins and the drivers they call: C04, C05, C09, C10, C15, C16, C17."""
import z3
from pyvc import ty as T
from pyvc.core import Loop, V, Unsupported, Exc


def install(eng):
    import gwf
    import gwf.core
    import gwf.backends
    import gwf.workflow
    vc = eng.vc
    B, H, G, Fs, TS = vc.Backend, vc.Hashes, vc.Graph, vc.Fs, vc.TargetSet
    LP = vc.Patterns
    CacheT = T.DictT(vc.Target, vc.Status)
    # ---- the environment of a command
    W = T.ObjT("Workflow")
    vc.Workflow = W
    eng.cls("Workflow", pyname="gwf.workflow:Workflow", fields={"targets": vc.NameTargets},
            consts={"working_dir": vc.Path})
    Ctx = T.ObjT("Context")
    vc.Context = Ctx
    eng.cls("Context", pyname="gwf.core:Context",
            consts={"working_dir": vc.Path, "config": vc.FileConfig, "backend": T.Atom("BackendName"),
                    "workflow_file": vc.Path, "workflow_obj": T.STR})
    eng.cls("CachedFilesystem", bases=["Fs"], root="Fs", pyname="gwf.core:CachedFilesystem")
    vc.the_workflow = z3.Const("the_workflow", W.sort())
    eng.spec_consts["the_workflow"] = V(W, vc.the_workflow)
    eng.contract("gwf.workflow:Workflow.from_context", params={"cls": V(T.PY, gwf.workflow.Workflow), "ctx": Ctx},
                 returns=W, returns_expr="the_workflow", trusted=True, pure=True,
                 ensures=["all(the_workflow.targets[k].name == k for k in the_workflow.targets)"],
                 note="imports the user's workflow file; the name->target map is keyed by target name "
                      "(Workflow._add_target, verified under C19)")
    eng.contract("gwf.core:CachedFilesystem.__init__", params={}, returns=Fs, trusted=True, pure=True,
                 note="attrs-generated constructor: an empty stat cache = a fresh consistent snapshot")
    # ---- CachedFilesystem is verified against the Fs interface. Model: os.stat(p) raises FileNotFoundError iff the
    # file is absent and otherwise returns an object whose st_mtime is the file's modification time, both functions of
    # the path while one command runs (ASSUMPTION: nobody else changes the files meanwhile; the cache is what keeps the
    # answers consistent if that fails, which is outside this model). For this class the interface functions
    # fs_exists / fs_mtime ARE those two functions (group `cachedfs`). Class invariant: every cached entry is the stat
    # answer for its own key.
    CF = T.ObjT("CachedFilesystem", root="Fs")
    OR = T.Opt(T.REAL)
    eng.classes["Fs"].fields["_cache"] = T.DictT(vc.Path, OR)
    f_statx = z3.Function("stat_exists", vc.Path.sort(), z3.BoolSort())
    f_statm = z3.Function("stat_mtime", vc.Path.sort(), z3.RealSort())
    fs_, p_ = vc.Fs.fresh("fs"), vc.Path.fresh("p")
    eng.axiom("cachedfs", z3.ForAll([fs_, p_], z3.And(vc.f_exists(fs_, p_) == f_statx(p_), vc.f_mtime(fs_, p_) == f_statm(p_))))
    StatT = T.ObjT("StatResult")
    eng.cls("StatResult", consts={"st_mtime": T.REAL})
    f_stm = eng.const_fn("StatResult", "st_mtime", T.REAL)

    def r_stat(e, args, kw, st, sink, n):
        pth = e.coerce(args[0], vc.Path, n)
        missing = z3.Not(f_statx(pth.z))
        if e.feasible(st, missing):
            sink.append((st.assume(missing), Exc(FileNotFoundError)))
        r, st = e.fresh(StatT, "st", st)
        yield st.assume(f_statx(pth.z), f_stm(r.z) == f_statm(pth.z)), r

    eng.rules[__import__("os").stat] = r_stat
    CINV = ["all(implies(self._cache[k] is None, not fs_exists(self, k)) and "
            "implies(self._cache[k] is not None, fs_exists(self, k) and the(self._cache[k]) == fs_mtime(self, k)) "
            "for k in self._cache)"]
    eng.contract("gwf.core:CachedFilesystem._lookup_file", self_type=CF, params={"self": CF, "path": vc.Path}, returns=OR,
                 requires=CINV, modifies=["self._cache"], cover_hints=["not any(True for k in self._cache)"],
                 ensures=CINV + ["(result is None) == (not fs_exists(self, path))",
                                 "implies(result is not None, the(result) == fs_mtime(self, path))"],
                 uses=["cachedfs"], serves=["C01", "C03", "C04", "C06"])
    eng.contract("gwf.core:CachedFilesystem.exists", self_type=CF, params={"self": CF, "path": vc.Path}, returns=T.BOOL,
                 requires=CINV, modifies=["self._cache"], ensures=CINV + ["result == fs_exists(self, path)"],
                 uses=["cachedfs"], serves=["C01", "C03", "C04", "C06"])
    eng.contract("gwf.core:CachedFilesystem.changed_at", self_type=CF, params={"self": CF, "path": vc.Path}, returns=T.REAL,
                 requires=CINV, modifies=["self._cache"],
                 ensures=CINV + ["result == fs_mtime(self, path)", "fs_exists(self, path)"],
                 raises={"FileNotFoundError": {"cond": "not fs_exists(self, path)", "ensures": CINV}},
                 uses=["cachedfs"], serves=["C01", "C03", "C04", "C06"])
    DISKT = ["ghost:disk_exists", "ghost:disk_valid", "ghost:disk_tracked"]
    eng.contract(
        "gwf.backends.base:create_backend", params={"name": T.Atom("BackendName"), "working_dir": vc.Path,
                                                     "config": vc.FileConfig},
        returns=B, returns_expr="the_backend", trusted=True, modifies=["Backend._tracked_jobs", "Backend._job_states"],
        ensures=[  # TrackingBackend's attrs defaults: _init_tracked / _init_status (verified under C08)
            "implies(StatePath(the_backend) in disk_exists, dict_eq(the_backend._tracked_jobs, disk_tracked[StatePath(the_backend)]))",
            "implies(StatePath(the_backend) not in disk_exists, dom(the_backend._tracked_jobs) == NoNames)"],
        raises={"BackendError": {"cond": "True", "modifies": []}, "json.JSONDecodeError": {
            "cond": "StatePath(the_backend) in disk_exists and StatePath(the_backend) not in disk_valid", "modifies": []}},
        note="entry-point discovery + backend constructor; its own body is under contract for C20")
    eng.contract("gwf.core:FileSpecHashes.__init__", params={"path": vc.Path}, returns=vc.FileHashes, trusted=True,
                 modifies=["SpecHashes.hashes"],
                 ensures=["result.is_file", "result.path == path",
                          "implies(path in disk_exists, dict_eq(result.hashes, disk_hashes[path]))",
                          "implies(path not in disk_exists, dom(result.hashes) == NoNames)",
                          "forall(lambda h: implies(h != result, h.hashes == old(h.hashes)), Hashes)"],
                 raises={"json.JSONDecodeError": {"cond": "path in disk_exists and path not in disk_valid", "modifies": []}},
                 note="attrs-generated constructor + __attrs_post_init__ (the latter is verified under C18)")
    eng.contract("gwf.core:NoopSpecHashes.__init__", params={}, returns=vc.NoopHashes, trusted=True, pure=True,
                 ensures=["not result.is_file"])
    eng.contract("gwf.core:get_spec_hashes", params={"working_dir": vc.Path, "config": vc.FileConfig},
                 returns=H, modifies=["SpecHashes.hashes"],
                 # C18: file-backed iff use_spec_hashes is switched on (default off: table obligation below)
                 ensures=["result.is_file == bool(config.data['use_spec_hashes'])" if False else
                          "result.is_file == ConfTruthy(config, 'use_spec_hashes')",
                          "implies(result.is_file and result.path in disk_exists, dict_eq(result.hashes, disk_hashes[result.path]))",
                          "implies(result.is_file and result.path not in disk_exists, dom(result.hashes) == NoNames)",
                          "forall(lambda h: implies(h != result, h.hashes == old(h.hashes)), Hashes)"],
                 raises={"json.JSONDecodeError": {"cond": "True", "modifies": []}},
                 serves=["C18", "C05", "C09"])

    def conf_truthy(e, st, cfg, key):
        d = z3.Select(st.heap[("FileConfig", "data")], cfg.z)
        k = e.coerce(key, T.STR).z
        CH = vc.ChainT
        dp, dv = vc.conf_default(k)
        val = z3.If(z3.Select(CH.dom(d), k), z3.Select(CH.vals(d), k), dv)
        present = z3.Or(z3.Select(CH.dom(d), k), dp)
        return V(T.BOOL, z3.And(present, eng.truthy(V(vc.ConfVal, val))))

    eng.fn("ConfTruthy")(conf_truthy)

    # ---- drivers in gwf.scheduling
    sc = eng.contracts["gwf.scheduling:schedule"]
    eng.ghost("sched_table", CacheT)
    sc.ghost_exit = [("sched_table", "result")]
    sc.modifies = list(sc.modifies) + ["ghost:sched_table"]
    sc.ensures = list(sc.ensures) + ["sched_table == result"]
    TABLE = [e.replace("result", "sched_table") for e in sc.ensures if "result" in e and "sched_table ==" not in e]
    NORES = [e for e in sc.ensures if "result" not in e]
    eng.contract(
        "gwf.scheduling:submit_workflow", shards=4,
        params={"endpoints": TS, "graph": G, "fs": Fs, "spec_hashes": H, "backend": B, "dry_run": T.BOOL},
        requires=list(sc.requires) + ["backend == the_backend", "dry_mode == dry_run"],
        defines=list(sc.defines), entry_assume=list(sc.entry_assume),
        modifies=list(sc.modifies), ensures=TABLE + NORES, raises=dict(sc.raises),
        uses=list(sc.uses), serves=["C05", "C02", "C09"])
    eng.contract(
        "gwf.scheduling:get_status_map", shards=4,
        params={"graph": G, "fs": Fs, "spec_hashes": H, "backend": B, "endpoints": T.Opt(TS)}, returns=CacheT,
        requires=[r for r in sc.requires if "endpoints" not in r] + [
            "backend == the_backend", "dry_mode", "endpoints is None",
            "forall(lambda a, b: (b in DependentsOf(graph, a)) == (a in deps0(b)), Target, Target)",
            "all(graph.dependents[a] != NoTargets for a in graph.dependents)",
            "forall(lambda u: InT(u) == (u in ValSet(graph.targets)), Target)"],
        defines=list(sc.defines),
        entry_assume=list(sc.entry_assume[:4]) + [
            "forall(lambda t: implies(InT(t) and not exists(lambda b: t in deps0(b), Target), X(t)), Target)"],
        modifies=list(sc.modifies),
        ensures=[e for e in sc.ensures if "endpoints" not in e and "sched_table ==" not in e] + [
            # the status table covers every endpoint of the graph (and, being closed, their cones)
            "forall(lambda t: implies(InT(t) and not exists(lambda b: t in deps0(b), Target), t in result), Target)",
            # C05: computing the table changes nothing the backend or the spec-hash store knows
            "forall(lambda u: BNow(u) == old(BNow(u)), Target)",
            "forall(lambda u, h: Changed(h, u) == old(Changed(h, u)), Target, Hashes)",
            "sched_accepted == old(sched_accepted)"],
        raises=dict(sc.raises), uses=list(sc.uses), serves=["C05", "C01", "C02"])

    # ================================================================== gwf run
    import os
    import contextlib
    import gwf.plugins.run
    LogName = T.Atom("FileName")
    vc.FileName = LogName
    eng.ghost("fs_removed", T.SetT(vc.Path))          # arguments of os.remove (C10, C15)
    eng.ghost("fs_touched", T.SetT(vc.Path))          # arguments of Path(...).touch (C16)
    eng.universe("FileName", LogName)
    vc.f_listdir = z3.Function("listdir", vc.Path.sort(), z3.ArraySort(LogName.sort(), z3.BoolSort()))
    vc.f_stem = z3.Function("stem", LogName.sort(), vc.Name.sort())            # splitext(basename(f))[0]
    vc.f_logfile = z3.Function("logfile", vc.Path.sort(), vc.Name.sort(), z3.StringSort(), vc.Path.sort())
    eng.fn("LogFile")(lambda e, st, wd, nm, ext: V(vc.Path, vc.f_logfile(wd.z, nm.z, ext.z)))
    eng.fn("Stem")(lambda e, st, f: V(vc.Name, vc.f_stem(f.z)))
    eng.fn("ListDir")(lambda e, st, d: V(T.SetT(LogName), vc.f_listdir(d.z)))

    def r_remove(e, args, kw, st, sink, n):
        p = e.coerce(args[0], vc.Path, n)
        g = st.ghost["fs_removed"]
        # the call may fail (OSError) without removing anything
        sink.append((st, __import__("pyvc.core", fromlist=["Exc"]).Exc(OSError, exact=False)))
        yield st.set_ghost("fs_removed", V(g.ty, z3.Store(g.z, p.z, True))), e.lift(None)

    eng.rules[os.remove] = r_remove

    class Suppress:
        def enter(self, e, cm, st, s):
            from pyvc.core import Outcome
            yield Outcome("next", st, cm)

        def exit(self, e, cm, o, s):
            from pyvc.core import Outcome
            if o.kind == "raise" and any(issubclass(o.val.cls, c) for c in cm.z[1]):
                yield Outcome("next", o.st)
            else:
                yield o

    eng.ctx_hooks["suppress"] = Suppress()
    eng.rules[contextlib.suppress] = lambda e, args, kw, st, sink, n: iter([(st, V(T.PY, ("suppress", tuple(a.z for a in args))))])
    # ---- clean_logs (C10, last sentence): the body is verified. Vocabulary: os.listdir(d) is a list of base names
    # (abstract sort FileName, total: cli.main creates the log directory), basename of a base name is itself,
    # splitext(f) = (Stem(f), extension); LogFile(wd, name, ext) is BY DEFINITION the path
    # join(wd, ".gwf", "logs", str(name) + ext), i.e. the project's log file of that target name.
    pos = vc.f_path_of_str
    wd_, nm_, ex_ = vc.Path.fresh("wd"), vc.Name.fresh("nm"), z3.String("ex!lf")
    f_logdir = z3.Function("logdir", vc.Path.sort(), vc.Path.sort())
    eng.axioms.append(z3.ForAll([wd_], f_logdir(wd_) == vc.f_join(vc.f_join(wd_, pos(z3.StringVal(".gwf"))),
                                                                  pos(z3.StringVal("logs")))))
    eng.axioms.append(z3.ForAll([wd_, nm_, ex_], vc.f_logfile(wd_, nm_, ex_) == vc.f_join(
        f_logdir(wd_), pos(z3.Concat(eng.to_str(V(vc.Name, nm_)).z, ex_)))))
    eng.fn("LogDir")(lambda e, st, wd: V(vc.Path, f_logdir(wd.z)))
    f_ext = z3.Function("ext", LogName.sort(), z3.StringSort())

    def r_listdir(e, args, kw, st, sink, n):
        d = e.coerce(args[0], vc.Path, n)
        lt = T.ListV(LogName)
        r, st = e.fresh(lt, "listing", st)
        r.aux = ("unique",)
        yield st.assume(lt.elems(r.z) == vc.f_listdir(d.z)), r

    def r_basename(e, args, kw, st, sink, n):
        if args[0].ty != LogName:
            raise Unsupported(f"os.path.basename of {args[0].ty}", n)
        yield st, args[0]                      # os.listdir returns base names

    def r_splitext(e, args, kw, st, sink, n):
        if args[0].ty != LogName:
            raise Unsupported(f"os.path.splitext of {args[0].ty}", n)
        yield st, e.mk_tuple([V(vc.Name, vc.f_stem(args[0].z)), V(T.STR, f_ext(args[0].z))])

    eng.rules[os.listdir] = r_listdir
    eng.rules[os.path.basename] = r_basename
    eng.rules[os.path.splitext] = r_splitext
    ONLY_GONE = ("forall(lambda p: implies(p in fs_removed and p not in old(fs_removed), "
                 "exists(lambda f: f in ListDir(LogDir(working_dir)) and Stem(f) not in dom(graph.targets) and "
                 "(p == LogFile(working_dir, Stem(f), '.stdout') or p == LogFile(working_dir, Stem(f), '.stderr')), "
                 "FileName)), Path)")
    eng.contract(
        "gwf.plugins.run:clean_logs", params={"working_dir": vc.Path, "graph": G},
        locals={"target_set": T.SetT(vc.Name), "log_files": T.SetT(vc.Name)},
        modifies=["ghost:fs_removed"],
        # C10: only log files of the project whose base name is not a target of the workflow are removed
        ensures=[ONLY_GONE], loops={1: Loop(inv=[ONLY_GONE])}, serves=["C10"],
        note="assumes the log directory exists (created by cli.main); an OSError from os.remove is suppressed")

    GRAPHMODS = ["Graph.targets", "Graph.provides", "Graph.dependencies", "Graph.dependents", "Graph.unresolved",
                 "ghost:fin", "ghost:clock"]
    ALLMODS = GRAPHMODS + list(sc.modifies) + ["ghost:fs_removed", "ghost:disk_exists", "ghost:disk_valid",
                                               "ghost:disk_tracked", "ghost:disk_hashes", "NameFilter.patterns"]
    NOEFFECT = {"cond": "True", "modifies": GRAPHMODS}      # C04: nothing was submitted, deleted, touched, written
    PERSIST = ["StatePath(the_backend) in disk_valid",
               "dict_eq(disk_tracked[StatePath(the_backend)], the_backend._tracked_jobs)"]
    eng.contract(
        "gwf.plugins.run:run", shards=4, params={"ctx": Ctx, "targets": LP, "dry_run": T.BOOL},
        defines=["dry_mode"] + list(sc.defines) + ["InT", "deps0", "Reach"],
        entry_assume=["dry_mode == dry_run", "dom(log_pos) == NoTargets", "log_n == 0"],
        modifies=ALLMODS,
        ensures=PERSIST + [
            # C05: a dry run accepts nothing, removes no log and leaves the recorded ids / hashes as they were
            "implies(dry_run, sched_accepted == old(sched_accepted) and fs_removed == old(fs_removed))",
            "implies(dry_run and StatePath(the_backend) in old(disk_exists), "
            "dict_eq(disk_tracked[StatePath(the_backend)], old(disk_tracked)[StatePath(the_backend)]))",
            # C10: no log is removed when log cleaning is switched off
            "implies(not ConfTruthy(ctx.config, 'clean_logs'), fs_removed == old(fs_removed))",
        ] + [e for e in TABLE + NORES if "dry_mode" not in e and "acc0" not in e and "chg0" not in e and "bstat0" not in e and "trk0" not in e],
        raises={
            "FileProvidedByMultipleTargetsError": NOEFFECT, "UnresolvedInputError": NOEFFECT,
            "CircularDependencyError": NOEFFECT,
            # C09: whatever fails later, either nothing was accepted or the accepted ids are on disk
            "BackendError": {"cond": "True", "ensures": [
                "sched_accepted == old(sched_accepted) or (StatePath(the_backend) in disk_valid and "
                "dict_eq(disk_tracked[StatePath(the_backend)], the_backend._tracked_jobs))"]},
            "json.JSONDecodeError": {"cond": "True", "ensures": ["sched_accepted == old(sched_accepted)"]},
            "OSError": {"cond": "True", "ensures": PERSIST},      # closing the scheduler connection failed
            "Exception": {"cond": "True", "ensures": [
                "sched_accepted == old(sched_accepted) or (StatePath(the_backend) in disk_valid and "
                "dict_eq(disk_tracked[StatePath(the_backend)], the_backend._tracked_jobs))"]},
        },
        # C02 "the requested targets (name patterns, default all endpoints)": once the graph exists, X is introduced as an
        # ARBITRARY dependency-closed set containing the requested targets. It is unconstrained up to that point, so this is
        # a definition (satisfiable: X = everything). From here on submit_workflow's own "X contains the endpoints" is a
        # proof obligation, i.e. the endpoints `run` passes on must be requested ones, and the postcondition "every
        # scheduled target lies in X" says: nothing outside the cone of the requested targets.
        cuts=[{"at": ("With", 1), "define": ["X"], "assume": [
            "forall(lambda t: implies(t in ValSet(graph.targets) and "
            "((len(targets) > 0 and any(Matches(t.name, p) for p in targets)) or "
            "(len(targets) == 0 and not exists(lambda b: t in deps0(b), Target))), X(t)), Target)"]}],
        uses=list(sc.uses) + ["reach"], serves=["C04", "C05", "C09", "C10", "C02"])

    # ================================================================== gwf touch (C16)
    import pathlib
    FnRef = vc.FnRef
    PO = T.ObjT("PathObj")
    eng.cls("PathObj", consts={"text": vc.Path})
    f_text = eng.const_fn("PathObj", "text", vc.Path)
    f_mkpath = z3.Function("PathObj.of", vc.Path.sort(), PO.sort())
    eng.axioms.append(z3.ForAll([p_ := vc.Path.fresh("p")], f_text(f_mkpath(p_)) == p_))
    eng.rules[pathlib.Path] = lambda e, args, kw, st, sink, n: iter([(st, V(PO, f_mkpath(e.coerce(args[0], vc.Path, n).z)))])
    eng.ghost("first_touch", T.DictT(vc.Path, T.INT))
    eng.ghost("last_touch", T.MapT(vc.Path, T.INT))
    eng.ghost("touch_n", T.INT)
    eng.ghost("visited", TS)
    TG = ["ghost:first_touch", "ghost:last_touch", "ghost:touch_n"]
    eng.contract(
        "iface:PathObj.touch", self_type=PO, params={"self": PO, "exist_ok": T.BOOL}, trusted=True, modifies=TG,
        requires=["exist_ok"],
        ensures=["forall(lambda p: (p in first_touch) == (p in old(first_touch) or p == self.text), Path)",
                 "first_touch[self.text] == (old(first_touch)[self.text] if self.text in old(first_touch) else old(touch_n))",
                 "all(first_touch[p] == old(first_touch)[p] for p in old(dom(first_touch)))",
                 "last_touch == store(old(last_touch), self.text, old(touch_n))", "touch_n == old(touch_n) + 1"],
        note="pathlib.Path.touch(exist_ok=True): creates an empty file or only updates the times, never the "
             "content (trusted); the ghost records the first and the last touch position of every path")
    TINV = [
        "forall(lambda u, d: (d in DepsOf(graph, u)) == (d in deps0(u)), Target, Target)",
        "forall(lambda u, d: implies(d in deps0(u), 0 <= fin[d] and fin[d] < fin[u] and InT(d) and InT(u)), Target, Target)",
        "forall(lambda u, v: implies(InT(u) and InT(v) and u.name == v.name, u == v), Target, Target)",
        "forall(lambda a, b, p: implies(InT(a) and InT(b) and p in Outs(a) and p in Outs(b), a == b), Target, Target, Path)",
        "touch_n >= 0",
        "all(0 <= first_touch[p] and first_touch[p] <= last_touch[p] and last_touch[p] < touch_n for p in first_touch)",
        # exactly the outputs of the visited targets have been touched (nothing outside the cone)
        "forall(lambda p: (p in first_touch) == any(p in Outs(u) for u in visited), Path)",
        "all(InT(u) and X(u) for u in visited)",
        "all(d in visited for u in visited for d in deps0(u))",
        # modification times follow the dependency order: a dependency's outputs are touched (for the last time)
        # before the first touch of any output of its dependent
        "all(last_touch[pd] < first_touch[po] for u in visited for d in deps0(u) for pd in Outs(d) for po in Outs(u))",
        # C16/C18: the current spec of every visited target is recorded
        "all(not Changed(spec_hashes, u) for u in visited)",
    ]
    TMODS = ["Graph.dependencies", "SpecHashes.hashes", "ghost:visited"] + TG
    eng.contract(
        "gwf.plugins.touch:touch_workflow._visit", params={"target": vc.Target},
        captures={"graph": G, "spec_hashes": H, "_visit": FnRef("gwf.plugins.touch:touch_workflow._visit")},
        memo="visited", requires=TINV + ["InT(target)", "X(target)"], modifies=TMODS,
        ensures=TINV + ["target in visited", "subset(old(visited), visited)",
                        "all(rank(u) <= rank(target) for u in visited if u not in old(visited))"],
        loops={1: Loop(seen="sd", inv=TINV + [
            "target not in visited", "InT(target)", "X(target)", "all(d in visited for d in sd)",
            "subset(old(visited), visited)",
            "all(rank(u) < rank(target) for u in visited if u not in old(visited))"]),
            2: Loop(seen="sp", inv=[i for i in TINV if "(p in first_touch) ==" not in i and "last_touch[pd]" not in i] + [
                "target not in visited", "InT(target)", "X(target)", "all(d in visited for d in deps0(target))",
                "subset(old(visited), visited)",
                "all(rank(u) < rank(target) for u in visited if u not in old(visited))",
                "forall(lambda p: (p in first_touch) == (any(p in Outs(u) for u in visited) or p in sp), Path)",
                "all(last_touch[pd] < first_touch[po] for u in visited for d in deps0(u) for pd in Outs(d) for po in Outs(u))",
                "all(last_touch[pd] < first_touch[po] for d in deps0(target) for pd in Outs(d) for po in sp)",
                "not Changed(spec_hashes, target)"])},
        decreases="tup(rank(target), 0)", rec_group="touch", uses=["cone"], serves=["C16", "C18"])
    eng.contract(
        "gwf.plugins.touch:touch_workflow", params={"endpoints": TS, "graph": G, "spec_hashes": H},
        requires=[i for i in TINV[:4]] + ["all(InT(e) for e in endpoints)"],
        defines=["X"],
        entry_assume=["all(X(e) for e in endpoints)", "dom(first_touch) == NoPaths", "touch_n == 0", "visited == NoTargets"],
        modifies=TMODS,
        ensures=TINV + ["all(e in visited for e in endpoints)"],
        loops={1: Loop(seen="se", inv=TINV + ["all(e in visited for e in se)"])},
        uses=["cone"], serves=["C16", "C18"])

    # ================================================================== click (trusted)
    import click
    import builtins as _bi
    from pyvc.core import Exc

    def r_confirm(e, args, kw, st, sink, n):
        # click.confirm(..., abort=True): returns True on "yes", raises click.Abort on "no"
        sink.append((st, Exc(click.exceptions.Abort)))
        yield st, e.lift(True)

    eng.rules[click.confirm] = r_confirm
    eng.rules[click.echo] = lambda e, args, kw, st, sink, n: iter([(st, e.lift(None))])
    eng.rules[click.secho] = lambda e, args, kw, st, sink, n: iter([(st, e.lift(None))])
    eng.rules[click.format_filename] = lambda e, args, kw, st, sink, n: iter([(st, e.to_str(args[0], n))])
    eng.exc_names["Abort"] = click.exceptions.Abort

    def raw_sum(e, n, st, sink):
        """sum(<generator>) whose value is only logged: the generator may only call read-only functions"""
        ok = {"getsize", "exists", "protected", "flattened_outputs", "flattened_inputs"}
        for sub in __import__("ast").walk(n.args[0]):
            if isinstance(sub, __import__("ast").Call):
                f = sub.func
                nm = f.attr if hasattr(f, "attr") else getattr(f, "id", None)
                if nm not in ok:
                    from pyvc.core import Unsupported
                    raise Unsupported(f"sum() over a generator calling {nm}", n)
        yield st, V(T.INT, z3.FreshConst(z3.IntSort(), "sum"))

    eng.raw_rules[_bi.sum] = raw_sum

    # ================================================================== gwf clean (C15)
    eng.contract("gwf.core:Target.protected", self_type=vc.Target, params={"self": vc.Target},
                 returns=vc.PathSet, returns_expr="Prot(self)", pure=True, uses=["filesets", "ospath"],
                 serves=["C15"], note="set(_norm_paths(working_dir, _flatten(protect))): the same Canon as the outputs")
    eng.contract("gwf.plugins.clean:_delete_file", params={"path": vc.Path}, modifies=["ghost:fs_removed"],
                 ensures=["forall(lambda p: implies(p in fs_removed, p in old(fs_removed) or p == path), Path)"],
                 serves=["C15"], note="an OSError from os.remove is swallowed: the file then simply stays")
    DISKH = ["ghost:disk_exists", "ghost:disk_valid", "ghost:disk_hashes"]
    CLEANMODS = GRAPHMODS + ["ghost:fs_removed", "SpecHashes.hashes", "NameFilter.patterns", "EndpointFilter.endpoints",
                             "EndpointFilter.mode", "CompositeFilter.filters"] + DISKH
    SEL = ("(InT(t) and (len(targets) == 0 or any(Matches(t.name, p) for p in targets)) and "
           "(all or exists(lambda b: t in deps0(b), Target)))")
    eng.contract(
        "gwf.plugins.clean:clean", shards=4, params={"ctx": Ctx, "targets": LP, "all": T.BOOL, "force": T.BOOL},
        locals={"filters": T.ListV(vc.Filter), "matches": T.ListV(vc.Target)},
        defines=["InT", "deps0", "Reach"], modifies=CLEANMODS,
        ensures=[
            # C15: a file is removed only if it is an unprotected declared output of a selected target
            "forall(lambda p: implies(p in fs_removed and p not in old(fs_removed), "
            "exists(lambda t: %s and p in Outs(t) and p not in Prot(t), Target)), Path)" % SEL],
        raises={"FileProvidedByMultipleTargetsError": NOEFFECT, "UnresolvedInputError": NOEFFECT,
                "CircularDependencyError": NOEFFECT,
                # C15: a declined confirmation changes nothing at all
                "Abort": {"cond": "True", "modifies": GRAPHMODS + ["NameFilter.patterns", "EndpointFilter.endpoints",
                                                                   "EndpointFilter.mode", "CompositeFilter.filters"]},
                "json.JSONDecodeError": {"cond": "True", "ensures": ["fs_removed == old(fs_removed)"]}},
        loops={1: Loop(seen="st", inv=[
            "forall(lambda p: implies(p in fs_removed and p not in old(fs_removed), "
            "exists(lambda t: t in st and p in Outs(t) and p not in Prot(t), Target)), Path)"]),
            2: Loop(seen="sp", inv=[
                "forall(lambda p: implies(p in fs_removed and p not in old(fs_removed), "
                "exists(lambda t: (t in st or t == target) and p in Outs(t) and p not in Prot(t), Target)), Path)"])},
        uses=["reach"], serves=["C15", "C04", "C18"])

    # ================================================================== gwf touch command, gwf cancel (C16, C17)
    eng.contract(
        "gwf.plugins.touch:touch", params={"ctx": Ctx, "targets": LP},
        defines=["InT", "deps0", "Reach", "X"],
        entry_assume=["dom(first_touch) == NoPaths", "touch_n == 0", "visited == NoTargets"],
        modifies=GRAPHMODS + TMODS + DISKH + ["NameFilter.patterns"],
        ensures=[i for i in TINV[4:] if "spec_hashes" not in i],
        raises={"FileProvidedByMultipleTargetsError": NOEFFECT, "UnresolvedInputError": NOEFFECT,
                "CircularDependencyError": NOEFFECT,
                "json.JSONDecodeError": {"cond": "True", "ensures": ["dom(first_touch) == NoPaths"]}},
        # C16 "every selected target and each of its transitive dependencies ... touches nothing outside that cone": as for
        # `gwf run`, X becomes an arbitrary closed set containing the REQUESTED targets once the graph exists
        cuts=[{"at": ("With", 1), "define": ["X"], "assume": [
            "forall(lambda t: implies(t in ValSet(graph.targets) and "
            "((len(targets) > 0 and any(Matches(t.name, p) for p in targets)) or "
            "(len(targets) == 0 and not exists(lambda b: t in deps0(b), Target))), X(t)), Target)"]}],
        uses=["cone", "reach"], serves=["C16", "C04"])
    vc.f_cancel_fails = z3.Function("CancelFails", vc.JobId.sort(), z3.BoolSort())
    eng.fn("CancelFails")(lambda e, st, j: V(T.BOOL, vc.f_cancel_fails(j.z)))
    oc = eng.contracts["iface:Ops.cancel_job"]
    oc.ensures = list(oc.ensures) + ["not CancelFails(job_id)"]
    oc.raises = {"BackendError": {"cond": "CancelFails(job_id)", "modifies": []}}
    tc = eng.contracts["gwf.backends.base:TrackingBackend.cancel"]
    tc.ensures = list(tc.ensures) + ["not CancelFails(self._tracked_jobs[target.name])"]
    tc.raises = {"TargetError": {"cond": "target.name not in self._tracked_jobs", "modifies": []},
                 "BackendError": {"cond": "target.name in self._tracked_jobs and CancelFails(self._tracked_jobs[target.name])",
                                  "modifies": []}}
    CANCELLED_ONLY = ("forall(lambda j: implies(j in sched_cancelled and j not in old(sched_cancelled), "
                      "any(t.name in backend._tracked_jobs and backend._tracked_jobs[t.name] == j for t in %s)), JobId)")
    eng.contract(
        "gwf.plugins.cancel:cancel_many", params={"backend": B, "targets": TS}, modifies=["ghost:sched_cancelled"],
        ensures=[
            # C17: only the latest jobs of the selected targets ...
            CANCELLED_ONLY % "targets",
            # ... and every one of them, whatever happened to the others (never submitted, scheduler error)
            "all(implies(t.name in backend._tracked_jobs and not CancelFails(backend._tracked_jobs[t.name]), "
            "backend._tracked_jobs[t.name] in sched_cancelled) for t in targets)"],
        loops={1: Loop(seen="sc", inv=[
            CANCELLED_ONLY % "sc",
            "all(implies(t.name in backend._tracked_jobs and not CancelFails(backend._tracked_jobs[t.name]), "
            "backend._tracked_jobs[t.name] in sched_cancelled) for t in sc)",
            "forall(lambda j: implies(j in old(sched_cancelled), j in sched_cancelled), JobId)"])},
        serves=["C17"])
    eng.contract(
        "gwf.plugins.cancel:cancel", params={"ctx": Ctx, "targets": LP, "force": T.BOOL},
        defines=["InT", "deps0", "Reach"],
        modifies=GRAPHMODS + ["ghost:sched_cancelled", "Backend._tracked_jobs", "Backend._job_states",
                              "NameFilter.patterns"] + DISKT,
        ensures=[
            "forall(lambda j: implies(j in sched_cancelled and j not in old(sched_cancelled), "
            "exists(lambda t: InT(t) and (len(targets) == 0 or any(Matches(t.name, p) for p in targets)) and "
            "t.name in the_backend._tracked_jobs and the_backend._tracked_jobs[t.name] == j, Target)), JobId)",
            "forall(lambda t: implies(InT(t) and (len(targets) == 0 or any(Matches(t.name, p) for p in targets)) and "
            "t.name in the_backend._tracked_jobs and not CancelFails(the_backend._tracked_jobs[t.name]), "
            "the_backend._tracked_jobs[t.name] in sched_cancelled), Target)"],
        raises={"FileProvidedByMultipleTargetsError": NOEFFECT, "UnresolvedInputError": NOEFFECT,
                "CircularDependencyError": NOEFFECT,
                "Abort": {"cond": "True", "modifies": []},         # declined prompt: nothing was cancelled
                "BackendError": {"cond": "True", "ensures": ["sched_cancelled == old(sched_cancelled)"]},
                "json.JSONDecodeError": {"cond": "True", "ensures": ["sched_cancelled == old(sched_cancelled)"]},
                "OSError": {"cond": "True", "ensures": []}},
        uses=["reach"], serves=["C17", "C04"])

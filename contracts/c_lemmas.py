"""Lemmas over contracts (no code is executed here): C06 convergence, C16 consequence.
Hypotheses are (a) the ensures clauses of verified contracts, evaluated from their text, and (b) the environment
assumptions E1-E5 of DESIGN 4 C06, which are NOT verified. The induction over the acyclic rank is the meta-lemma
lean/Meta.lean (strong induction); z3 discharges the induction step."""
import z3
from pyvc import ty as T
from pyvc.core import V, State


def install(eng):
    vc = eng.vc
    Tg, P = vc.Target.sort(), vc.Path.sort()
    S, B = vc.Status, vc.BStatus
    COMPLETED = S.const("COMPLETED")

    def build_c06(e):
        # ---- state 0 (before the run) is the vocabulary's own: deps0, bstat0, stale0, SpecF, fs_exists, fs_mtime
        fs0, fs1 = z3.Const("fs0", vc.Fs.sort()), z3.Const("fs1", vc.Fs.sort())
        ex0 = lambda p: vc.f_exists(fs0, p)
        ex1 = lambda p: vc.f_exists(fs1, p)
        mt0 = lambda p: vc.f_mtime(fs0, p)
        mt1 = lambda p: vc.f_mtime(fs1, p)
        sub = z3.Function("submitted", Tg, z3.BoolSort())            # the run's submission log (dom log_pos)
        prereq = z3.Function("prereq", Tg, Tg, z3.BoolSort())        # logged prerequisites (log_deps)
        start, end = z3.Function("job_start", Tg, z3.RealSort()), z3.Function("job_end", Tg, z3.RealSort())
        chg0, chg1 = z3.Function("changed0", Tg, z3.BoolSort()), z3.Function("changed1", Tg, z3.BoolSort())
        bstat1 = z3.Function("bstat1", Tg, B.sort())
        Spec1 = z3.Function("Spec1", Tg, S.sort())
        T0 = z3.Real("T0")                                           # the moment of the run
        t, d, u = z3.Consts("t d u", Tg)
        o, i, p = z3.Consts("o i p", P)
        outs, ins, deps = vc.f_Outs, vc.f_Ins, vc.f_deps0
        X, SpecF, InT = vc.f_X, vc.f_SpecF, vc.f_InT
        needs = vc.needs

        def stale(ex, mt, chg, x):
            return z3.Or(chg(x), outs(x) == vc.PathSet.empty(),
                         z3.Exists([o], z3.And(z3.Select(outs(x), o), z3.Not(ex(o)))),
                         z3.Exists([i, o], z3.And(z3.Select(ins(x), i), z3.Select(outs(x), o), mt(i) > mt(o))))

        notdone1 = z3.Exists([d], z3.And(z3.Select(deps(u), d), Spec1(d) != COMPLETED))
        spec1_def = z3.ForAll([u], Spec1(u) == z3.If(bstat1(u) == B.const("SUBMITTED"), S.const("SUBMITTED"),
                              z3.If(bstat1(u) == B.const("RUNNING"), S.const("RUNNING"),
                              z3.If(bstat1(u) == B.const("FAILED"), S.const("FAILED"),
                              z3.If(bstat1(u) == B.const("CANCELLED"), S.const("CANCELLED"),
                              z3.If(z3.Or(notdone1, stale(ex1, mt1, chg1, u)), S.const("SHOULDRUN"), COMPLETED))))))
        H = []
        H += e.axiom_groups["spec"] + e.axiom_groups["cone"] + e.axiom_groups["fs"]
        H.append(spec1_def)
        H.append(z3.ForAll([u], vc.f_stale0(u) == stale(ex0, mt0, chg0, u)))
        # (a) from verified contracts ---------------------------------------------------------------------------------
        # schedule: submitted iff in the cone and needs it; prerequisites exactly the incomplete direct dependencies
        H.append(z3.ForAll([u], z3.Implies(X(u), sub(u) == needs(SpecF(u)))))
        H.append(z3.ForAll([u, d], z3.Implies(sub(u), prereq(u, d) == z3.And(z3.Select(deps(u), d), SpecF(d) != COMPLETED))))
        # from_targets: dependencies are targets, share a path, are single producers; inputs exist or are produced
        H.append(z3.ForAll([u, d], z3.Implies(z3.Select(deps(u), d), z3.And(InT(u), InT(d),
                 z3.Exists([p], z3.And(z3.Select(ins(u), p), z3.Select(outs(d), p)))))))
        H.append(z3.ForAll([u, p], z3.Implies(z3.And(InT(u), z3.Select(ins(u), p)),
                 z3.Or(ex0(p), z3.Exists([d], z3.And(z3.Select(deps(u), d), z3.Select(outs(d), p)))))))
        H.append(z3.ForAll([u, d, p], z3.Implies(z3.And(InT(u), InT(d), z3.Select(outs(u), p), z3.Select(outs(d), p)), u == d)))
        H.append(z3.ForAll([u, d, p], z3.Implies(z3.And(InT(u), InT(d), z3.Select(ins(u), p), z3.Select(outs(d), p)),
                                                  z3.Select(deps(u), d))))
        # submit_backend / FileSpecHashes: an accepted submission records the hash; nothing else changes a record
        H.append(z3.ForAll([u], z3.Implies(sub(u), z3.Not(chg1(u)))))
        H.append(z3.ForAll([u], z3.Implies(z3.Not(sub(u)), chg1(u) == chg0(u))))
        # (b) environment, NOT verified ---------------------------------------------------------------------------------
        H.append(z3.ForAll([u], z3.And(vc.f_bstat0(u) != B.const("SUBMITTED"), vc.f_bstat0(u) != B.const("RUNNING"))))  # premise
        H.append(z3.ForAll([u], z3.Or(bstat1(u) == B.const("COMPLETED"), bstat1(u) == B.const("UNKNOWN"))))         # E4
        H.append(z3.ForAll([u, o], z3.Implies(z3.And(sub(u), z3.Select(outs(u), o)),
                                              z3.And(ex1(o), start(u) <= mt1(o), mt1(o) <= end(u)))))                # E1
        H.append(z3.ForAll([u, d], z3.Implies(z3.And(sub(u), prereq(u, d), sub(d)), end(d) <= start(u))))            # E2
        H.append(z3.ForAll([u], z3.Implies(sub(u), z3.And(T0 <= start(u), start(u) <= end(u)))))                     # E5
        H.append(z3.ForAll([p], z3.Implies(ex0(p), mt0(p) <= T0)))                                                    # E5
        H.append(z3.ForAll([p], z3.Implies(z3.Not(z3.Exists([u], z3.And(sub(u), z3.Select(outs(u), p)))),
                                           z3.And(ex1(p) == ex0(p), mt1(p) == mt0(p)))))                              # E3
        # everything in the cone is a workflow target
        H.append(z3.ForAll([u], z3.Implies(X(u), InT(u))))
        H.append(z3.ForAll([u], z3.Implies(sub(u), X(u))))      # schedule: only cone targets are submitted
        produced = lambda q: z3.Exists([u], z3.And(sub(u), z3.Select(outs(u), q)))
        chain = []      # lemmas proved so far, universally closed, usable by the later ones

        def lemma(label, goal_t, extra=()):
            hyps = H + chain + list(extra)
            chain.append(z3.ForAll([t], goal_t))
            return label, hyps, goal_t

        # A. not submitted in the cone => it was complete before the run (nothing was pending or running)
        yield lemma("c06.A:not-submitted=>complete-before", z3.Implies(z3.And(X(t), z3.Not(sub(t))), SpecF(t) == COMPLETED))
        # B. complete before => not stale before and every dependency complete before
        yield lemma("c06.B:complete-before=>fresh-and-deps-complete",
                    z3.Implies(SpecF(t) == COMPLETED, z3.And(z3.Not(vc.f_stale0(t)),
                               z3.ForAll([d], z3.Implies(z3.Select(deps(t), d), SpecF(d) == COMPLETED)))))
        # C. complete before (in the cone) => none of its files is written by a job of this run
        yield lemma("c06.C:files-of-complete-targets-untouched",
                    z3.Implies(z3.And(X(t), SpecF(t) == COMPLETED),
                               z3.ForAll([p], z3.Implies(z3.Or(z3.Select(ins(t), p), z3.Select(outs(t), p)), z3.Not(produced(p))))))
        # D. ... hence its staleness is unchanged, i.e. it is still not stale after the drain
        yield lemma("c06.D:complete-before=>not-stale-after",
                    z3.Implies(z3.And(X(t), SpecF(t) == COMPLETED), z3.Not(stale(ex1, mt1, chg1, t))))
        # E. submitted => after the drain every output exists and no input is strictly newer than any output
        yield lemma("c06.E:submitted=>not-stale-after",
                    z3.Implies(z3.And(X(t), sub(t), outs(t) != vc.PathSet.empty()), z3.Not(stale(ex1, mt1, chg1, t))))
        # ---- induction step over rank: hypothesis for every dependency, conclusion for t
        IH = z3.ForAll([d], z3.Implies(z3.And(z3.Select(deps(t), d), X(d)), Spec1(d) == COMPLETED))
        goal = z3.Implies(z3.And(X(t), outs(t) != vc.PathSet.empty()), Spec1(t) == COMPLETED)
        yield "c06.1:step(all-dependencies-complete => target complete after the drain)", H + chain + [IH], goal
        # the second run submits none of them: Needs(Spec1) is false for completed targets
        yield "c06.1:second-run-submits-nothing", H + [Spec1(t) == COMPLETED], z3.Not(needs(Spec1(t)))

    eng.lemmas["c06_convergence"] = {"serves": ["C06"], "build": build_c06, "uses": [], "file": "contracts/c_lemmas.py"}

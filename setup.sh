#!/bin/sh
# Builds /verif/.venv offline: python 3.12 (same interpreter as /venv, so `ast` is the
# running grammar), z3-solver + cvc5 from the wheelhouse, gwf's own dependencies through
# a .pth pointing at /venv's site-packages.  /repo/src is NOT put on the path here: every
# check inserts the source root it verifies itself.
set -e
cd "$(dirname "$0")"
if [ -x .venv/bin/python ] && .venv/bin/python -c "import z3, click, attrs" 2>/dev/null; then
  echo "setup: .venv present"; exit 0
fi
rm -rf .venv
/venv/bin/python -m venv .venv
PIP_NO_INDEX=1 .venv/bin/python -m pip install -q --no-index --find-links /opt/veriftools/wheels z3-solver cvc5 jsonschema >/dev/null
SP=$(.venv/bin/python -c "import site;print(site.getsitepackages()[0])")
echo "import site; site.addsitedir('/venv/lib/python3.12/site-packages')" > "$SP/zz_venv_overlay.pth"
.venv/bin/python -c "import z3, click, attrs; print('setup: ok, z3', z3.get_version_string())"

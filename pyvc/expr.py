"""pyvc expression evaluation (code mode: real Python expressions, path-forking and possibly
raising; spec mode: the same syntax read as logic, no forking, quantifiers from all()/any())."""
import ast
import enum
import os
import logging
import types
import z3
from . import ty as T
from .core import V, Exc, EXC, FunV, State, Unsupported, SpecError, lineno, parse_spec


class BoundBuiltin:
    """attribute of a modelled builtin-typed value, e.g. `xs.append`"""

    def __init__(self, recv, name, recv_node):
        self.recv, self.name, self.recv_node = recv, name, recv_node


def zand(*zs):
    zs = [z for z in zs if z is not None]
    if not zs:
        return z3.BoolVal(True)
    return zs[0] if len(zs) == 1 else z3.And(*zs)


def zor(*zs):
    zs = list(zs)
    if not zs:
        return z3.BoolVal(False)
    return zs[0] if len(zs) == 1 else z3.Or(*zs)


class ExprMixin:
    # ------------------------------------------------------------------ lifting / coercion
    def lift(self, obj, want=None):
        """concrete Python object -> V"""
        if isinstance(obj, V):
            return obj
        if obj is None:
            if want is not None and isinstance(want, T.Opt):
                return V(want, want.none())
            return V(T.NONE, T.NONE.value())
        if isinstance(obj, bool):
            return V(T.BOOL, z3.BoolVal(obj))
        if isinstance(obj, int):
            if want is T.REAL:
                return V(T.REAL, z3.RealVal(obj))
            return V(T.INT, z3.IntVal(obj))
        if isinstance(obj, float):
            if obj == float("inf"):
                return V(T.REAL, self.INF)
            if obj == float("-inf"):
                return V(T.REAL, -self.INF)
            return V(T.REAL, z3.RealVal(repr(obj)))
        if isinstance(obj, str):
            if isinstance(want, T.Atom):
                return V(want, self.intern(want, obj))
            return V(T.STR, z3.StringVal(obj))
        if isinstance(obj, enum.Enum):
            et = self.enum_type(type(obj))
            return V(et, et.const(obj.name))
        return V(T.PY, obj)

    def enum_type(self, pycls):
        key = ("enumty", pycls.__module__, pycls.__qualname__)
        if key not in self._tycache:
            self._tycache[key] = T.EnumT(pycls)
        return self._tycache[key]

    def intern(self, atom_ty, s):
        """a distinct constant of an uninterpreted sort per distinct Python string"""
        key = (atom_ty.name, s)
        if key not in self._interned:
            c = z3.Const(f"{atom_ty.name}!{s}", atom_ty.sort())
            for (tn, s2), c2 in self._interned.items():
                if tn == atom_ty.name:
                    self.axioms.append(c != c2)
            self._interned[key] = c
        return self._interned[key]

    def coerce(self, v, ty, node=None):
        if ty is None or v.ty == ty:
            return v
        if (v.ty.name, ty.name) in self.coerce_hooks:
            return self.coerce_hooks[(v.ty.name, ty.name)](self, v)
        if v.ty is T.PY:
            lv = self.lift(v.z, want=ty)
            if lv.ty is T.PY:
                lv2 = self.lift_collection(v.z, ty)
                if lv2 is not None:
                    return lv2
                raise Unsupported(f"cannot lift python object {v.z!r} to {ty}", node)
            return self.coerce(lv, ty, node)
        if isinstance(ty, T.Atom) and v.ty is T.STR and ty.name in self.str_atoms:
            return V(ty, self.str_atoms[ty.name](v.z))          # text of a path: an abstract path value
        if isinstance(ty, T.Atom) and v.ty is T.STR and z3.is_string_value(v.z):
            return V(ty, self.intern(ty, v.z.as_string()))     # a literal naming an abstract value
        if isinstance(v.ty, T.Opt) and v.ty.elem == ty:
            # an optional value used where the plain type is expected (callers have tested it): the value itself.
            # (None flowing into a typed parameter is outside the typed model.)
            return V(ty, v.ty.get(v.z))
        if isinstance(ty, T.Opt):
            if v.ty is T.NONE:
                return V(ty, ty.none())
            if isinstance(v.ty, T.Opt):
                raise Unsupported(f"cannot coerce {v.ty} to {ty}", node)
            return V(ty, ty.some(self.coerce(v, ty.elem, node).z))
        if isinstance(ty, T.ObjT) and isinstance(v.ty, T.ObjT) and ty.root == v.ty.root:
            return V(ty, v.z)   # up/down cast inside one class hierarchy (same sort)
        if hasattr(ty, "dt") and v.ty == ty.dt:
            return V(ty, v.z)     # a dict seen through its items()/values() view
        if isinstance(ty, T.SetT) and isinstance(v.ty, T.ListV) and v.ty.elem == ty.elem:
            return V(ty, v.ty.elems(v.z))     # a collection used only through membership / iteration
        if ty is T.REAL and v.ty is T.INT:
            return V(T.REAL, z3.ToReal(v.z))
        if ty is T.INT and v.ty is T.BOOL:
            return V(T.INT, z3.If(v.z, z3.IntVal(1), z3.IntVal(0)))
        if isinstance(ty, T.ListV) and isinstance(v.ty, T.ListV) and v.ty.elem == ty.elem:
            return v
        if isinstance(ty, T.DictT) and isinstance(v.ty, T.DictT) and v.ty.key == ty.key and v.ty.val == ty.val:
            return V(ty, v.z)  # DictT vs DDictT with same layout
        if isinstance(ty, T.ListV) and isinstance(v.ty, T.ListT) and v.ty.elem == ty.elem:
            return self.seq_to_listv(v)
        if isinstance(ty, T.TupT) and isinstance(v.ty, T.TupT) and len(ty.elems) == len(v.ty.elems):
            parts = [self.coerce(V(e, v.ty.get(v.z, i)), ty.elems[i], node).z for i, e in enumerate(v.ty.elems)]
            return V(ty, ty.mk(*parts))
        raise Unsupported(f"cannot coerce {v.ty} to {ty}", node)

    def lift_collection(self, obj, ty):
        if isinstance(ty, T.DictT) and isinstance(obj, dict):
            d = ty.empty()
            dom, val = ty.dom(d), ty.vals(d)
            for k, x in obj.items():
                kz = self.coerce(self.lift(k, ty.key), ty.key).z
                dom = z3.Store(dom, kz, True)
                val = z3.Store(val, kz, self.coerce(self.lift(x, ty.val), ty.val).z)
            return V(ty, ty.mk(dom, val))
        if isinstance(ty, T.SetT) and isinstance(obj, (set, frozenset, tuple, list)):
            s = ty.empty()
            for x in obj:
                s = z3.Store(s, self.coerce(self.lift(x, ty.elem), ty.elem).z, True)
            return V(ty, s)
        if isinstance(ty, T.ListT) and isinstance(obj, (tuple, list)):
            zs = [z3.Unit(self.coerce(self.lift(x, ty.elem), ty.elem).z) for x in obj]
            return V(ty, z3.Concat(*zs) if len(zs) > 1 else (zs[0] if zs else z3.Empty(ty.sort())))
        return None

    def seq_to_listv(self, v):
        lt = T.ListV(v.ty.elem)
        x = z3.FreshConst(v.ty.elem.sort(), "e")
        elems = z3.Lambda([x], z3.Contains(v.z, z3.Unit(x)))
        return V(lt, lt.mk(elems, z3.Length(v.z)))

    def unify(self, a, b, node=None):
        if a.ty == b.ty:
            return a, b
        if a.ty is T.PY and b.ty is not T.PY:
            return self.coerce(a, b.ty, node), b
        if b.ty is T.PY and a.ty is not T.PY:
            return a, self.coerce(b, a.ty, node)
        if a.ty is T.PY and b.ty is T.PY:
            return a, b
        for x, y, flip in ((a, b, False), (b, a, True)):
            try:
                c = self.coerce(x, y.ty, node)
                return (y, c)[::-1] if not flip else (y, c)
            except Unsupported:
                continue
        return None, None

    def truthy(self, v, node=None):
        t = v.ty
        if t is T.BOOL:
            return v.z
        if t is T.INT:
            return v.z != 0
        if t is T.REAL:
            return v.z != 0
        if t is T.STR:
            return z3.Length(v.z) > 0
        if t is T.NONE:
            return z3.BoolVal(False)
        if isinstance(t, T.Opt):
            inner = self.truthy(V(t.elem, t.get(v.z)), node)
            return z3.And(z3.Not(t.is_none(v.z)), inner)
        if isinstance(t, T.ListV):
            return t.len(v.z) > 0
        if isinstance(t, T.ListT):
            return z3.Length(v.z) > 0
        if isinstance(t, T.SetT):
            return v.z != t.empty()
        if isinstance(t, T.DictT):
            return t.dom(v.z) != z3.K(t.key.sort(), z3.BoolVal(False))
        if isinstance(t, (T.ObjT, T.FunT)) or t is EXC:
            return z3.BoolVal(True)
        if t is T.PY:
            return z3.BoolVal(bool(v.z))
        if t.name in self.truthy_hooks:
            return self.truthy_hooks[t.name](self, v)
        raise Unsupported(f"truthiness of {t}", node)

    def fresh(self, ty, hint, st):
        """fresh constant with its type invariant assumed"""
        if st.binder and st.mode != "spec":
            # a value created per element of a comprehension must be a TERM in the bound variable
            raise Unsupported(f"non-functional value ({hint}) inside a comprehension / generator body")
        z = ty.fresh(hint)
        inv = ty.inv(z)
        return V(ty, z), (st.assume(inv) if inv is not None else st)

    # ------------------------------------------------------------------ entry points
    def evx(self, node, st, sink):
        """generator of (state, value) for the normal results of evaluating `node`;
        exceptional results are appended to `sink` as (state, Exc)"""
        m = getattr(self, "ev_" + type(node).__name__, None)
        if m is None:
            raise Unsupported(f"expression {type(node).__name__}", node)
        yield from m(node, st, sink)

    def ev_list(self, nodes, st, sink):
        """evaluate a list of expressions left to right: yields (state, [values])"""
        if not nodes:
            yield st, []
            return
        for st1, v in self.evx(nodes[0], st, sink):
            for st2, rest in self.ev_list(nodes[1:], st1, sink):
                yield st2, [v] + rest

    def spec(self, expr, st, env=None, old=None, result=None, want_bool=True, isolate=False):
        """evaluate a spec expression (string or AST) to a z3 term in state `st`.
        `env` adds/overrides names; `old` is the state old(...) refers to."""
        node = parse_spec(expr)
        e = dict(st.env) if not isolate else {}
        if env:
            e.update(env)
        if result is not None:
            e["result"] = result
        s = st.clone(env=e, mode="spec", old=old if old is not None else st.old)
        sink = []
        res = list(self.evx(node, s, sink))
        if len(res) != 1:
            raise SpecError(f"spec expression did not evaluate to one value: {ast.unparse(node)}")
        v = res[0][1]
        if want_bool:
            if v.ty is not T.BOOL:
                return self.truthy(v, node)
            return v.z
        return v

    # ------------------------------------------------------------------ atoms
    def ev_Constant(self, n, st, sink):
        if n.value is Ellipsis:
            raise Unsupported("Ellipsis", n)
        yield st, self.lift(n.value)

    def lookup(self, name, st, node=None):
        if name in st.env:
            return st.env[name]
        if name in st.ghost and st.mode == "spec":
            return st.ghost[name]
        if st.mode == "spec":
            if name in self.spec_consts:
                c = self.spec_consts[name]
                return c(self, st) if callable(c) else c
            if name in self.vocab:
                return V(T.FUN, FunV("vocab", name=name))
            if name in self.universes:
                return V(T.PY, ("universe", self.universes[name]))
            if name in ("old", "implies", "iff", "setof", "ite", "dom", "elems", "fresh_in", "forall", "exists",
                        "some", "isnone", "the", "dict_eq", "mapof", "subset", "card0", "seq", "unit", "tup"):
                return V(T.FUN, FunV("specform", name=name))
        g = self.globals_of_current
        if name in g:
            return self.lift_global(g[name])
        import builtins
        if hasattr(builtins, name):
            return V(T.PY, getattr(builtins, name))
        raise Unsupported(f"unbound name {name!r}", node)

    def lift_global(self, obj):
        v = self.lift(obj)
        return v

    def ev_Name(self, n, st, sink):
        yield st, self.lookup(n.id, st, n)

    def ev_JoinedStr(self, n, st, sink):
        parts = []

        def rec(i, st):
            if i == len(n.values):
                zs = [p for p in parts]
                yield st, V(T.STR, self.concat(zs))
                return
            x = n.values[i]
            if isinstance(x, ast.Constant):
                parts.append(z3.StringVal(x.value))
                yield from rec(i + 1, st)
                parts.pop()
            else:
                if x.format_spec is not None or x.conversion not in (-1, 115):
                    raise Unsupported("f-string format spec", n)
                for st1, v in self.evx(x.value, st, sink):
                    parts.append(self.to_str(v, x).z)
                    yield from rec(i + 1, st1)
                    parts.pop()

        yield from rec(0, st)

    def concat(self, zs):
        zs = [z for z in zs if not (z3.is_string_value(z) and z.as_string() == "")]
        if not zs:
            return z3.StringVal("")
        return zs[0] if len(zs) == 1 else z3.Concat(*zs)

    def to_str(self, v, node=None):
        """str(v)"""
        if v.ty is T.STR:
            return v
        if v.ty is T.INT:
            return V(T.STR, self.int_to_str(v.z))
        if v.ty is T.PY and isinstance(v.z, (str, int)):
            return V(T.STR, z3.StringVal(str(v.z)))
        if v.ty.name in self.str_hooks:
            return self.str_hooks[v.ty.name](self, v)
        if self.lenient:
            return V(T.STR, z3.FreshConst(z3.StringSort(), "msg"))
        if isinstance(v.ty, (T.Atom, T.ObjT, T.EnumT)):
            # text of an abstract value: some function of the value (opaque)
            key = ("strfn", v.ty.name)
            if key not in self._tycache:
                self._tycache[key] = z3.Function("str!" + v.ty.name, v.ty.sort(), z3.StringSort())
            return V(T.STR, self._tycache[key](v.z))
        raise Unsupported(f"str() of {v.ty}", node)

    def int_to_str(self, z):
        return z3.If(z >= 0, z3.IntToStr(z), z3.Concat(z3.StringVal("-"), z3.IntToStr(-z)))

    def ev_Tuple(self, n, st, sink):
        for st1, vs in self.ev_list(n.elts, st, sink):
            yield st1, self.mk_tuple(vs)

    def mk_tuple(self, vs):
        if not vs:
            return V(T.PY, ())
        if any(v.ty in (T.PY, T.FUN, EXC) for v in vs):
            if all(v.ty is T.PY for v in vs):
                return V(T.PY, tuple(v.z for v in vs))
            # mixed: lift concrete scalars so the tuple can live in z3 when everything is liftable
            lifted = [self.lift(v.z) if v.ty is T.PY and isinstance(v.z, (bool, int, str, enum.Enum)) else v
                      for v in vs]
            if any(v.ty in (T.PY, T.FUN, EXC, T.NONE) for v in lifted):
                return V(T.PY, ("pytuple", tuple(vs)))
            vs = lifted
        tt = T.TupT(*[v.ty for v in vs])
        return V(tt, tt.mk(*[v.z for v in vs]))

    def tuple_items(self, v, node=None):
        if isinstance(v.ty, T.Opt) and isinstance(v.ty.elem, T.TupT):
            v = V(v.ty.elem, v.ty.get(v.z))      # unpacking None raises TypeError; callers test `is not None` first
        if isinstance(v.ty, T.TupT):
            return [V(e, v.ty.get(v.z, i)) for i, e in enumerate(v.ty.elems)]
        if v.ty is T.PY and isinstance(v.z, tuple) and len(v.z) == 2 and v.z[0] == "pytuple":
            return list(v.z[1])
        if v.ty is T.PY and isinstance(v.z, (tuple, list)):
            return [self.lift(x) for x in v.z]
        raise Unsupported(f"cannot unpack {v.ty}", node)

    def ev_List(self, n, st, sink):
        want = st.meta.get("want")
        for st1, vs in self.ev_list(n.elts, st, sink):
            if isinstance(want, T.ListT):
                zs = [z3.Unit(self.coerce(v, want.elem, n).z) for v in vs]
                z = z3.Concat(*zs) if len(zs) > 1 else (zs[0] if zs else z3.Empty(want.sort()))
                yield st1, V(want, z)
            elif isinstance(want, T.ListV) or (vs and vs[0].ty not in (T.PY,)):
                lt = want if isinstance(want, T.ListV) else T.ListV(vs[0].ty)
                s = T.SetT(lt.elem).empty()
                for v in vs:
                    s = z3.Store(s, self.coerce(v, lt.elem, n).z, True)
                yield st1, V(lt, lt.mk(s, z3.IntVal(len(vs))))
            else:
                if vs and not all(v.ty is T.PY for v in vs):
                    raise Unsupported("heterogeneous list display", n)
                yield st1, V(T.PY, [v.z for v in vs])

    def ev_Set(self, n, st, sink):
        want = st.meta.get("want")
        for st1, vs in self.ev_list(n.elts, st, sink):
            stt = want if isinstance(want, T.SetT) else T.SetT(vs[0].ty)
            s = stt.empty()
            for v in vs:
                s = z3.Store(s, self.coerce(v, stt.elem, n).z, True)
            yield st1, V(stt, s)

    def ev_Dict(self, n, st, sink):
        want = st.meta.get("want")
        if any(k is None for k in n.keys):
            raise Unsupported("dict display with ** unpacking", n)
        for st1, ks in self.ev_list(n.keys, st, sink):
            for st2, vs in self.ev_list(n.values, st1, sink):
                if isinstance(want, T.DictT):
                    dt = want
                elif ks and ks[0].ty is not T.PY and vs[0].ty is not T.PY:
                    dt = T.DictT(ks[0].ty, vs[0].ty)
                elif not ks:
                    yield st2, V(T.PY, {})
                    continue
                else:
                    raise Unsupported("dict display needs a declared type", n)
                d = dt.empty()
                dom, val = dt.dom(d), dt.vals(d)
                for k, v in zip(ks, vs):
                    kz = self.coerce(k, dt.key, n).z
                    dom = z3.Store(dom, kz, True)
                    val = z3.Store(val, kz, self.coerce(v, dt.val, n).z)
                yield st2, V(dt, dt.mk(dom, val))

    # ------------------------------------------------------------------ operators
    def ev_UnaryOp(self, n, st, sink):
        for st1, v in self.evx(n.operand, st, sink):
            if isinstance(n.op, ast.Not):
                yield st1, V(T.BOOL, z3.Not(self.truthy(v, n)))
            elif isinstance(n.op, ast.USub):
                if v.ty is T.PY:
                    yield st1, self.lift(-v.z)
                else:
                    yield st1, V(v.ty, -v.z)
            else:
                raise Unsupported("unary operator", n)

    def ev_BoolOp(self, n, st, sink):
        is_and = isinstance(n.op, ast.And)
        if st.mode == "spec":
            for st1, vs in self.ev_list(n.values, st, sink):
                zs = [self.truthy(v, n) for v in vs]
                yield st1, V(T.BOOL, z3.And(*zs) if is_and else z3.Or(*zs))
            return

        def rec(i, st):
            for st1, v in self.evx(n.values[i], st, sink):
                if i == len(n.values) - 1:
                    yield st1, v
                    continue
                t = self.truthy(v, n)
                stop, go = (z3.Not(t), t) if is_and else (t, z3.Not(t))
                if self.feasible(st1, stop):
                    yield st1.assume(stop), v
                if self.feasible(st1, go):
                    yield from rec(i + 1, st1.assume(go))

        yield from rec(0, st)

    def ev_IfExp(self, n, st, sink):
        for st1, c in self.evx(n.test, st, sink):
            t = self.truthy(c, n)
            if st.mode == "spec":
                for st2, a in self.evx(n.body, st1, sink):
                    for st3, b in self.evx(n.orelse, st2, sink):
                        a2, b2 = self.unify(a, b, n)
                        if a2 is None:
                            raise Unsupported("conditional expression with incompatible types", n)
                        yield st3, V(a2.ty, z3.If(t, a2.z, b2.z))
                continue
            if self.feasible(st1, t):
                yield from self.evx(n.body, st1.assume(t), sink)
            if self.feasible(st1, z3.Not(t)):
                yield from self.evx(n.orelse, st1.assume(z3.Not(t)), sink)

    def ev_BinOp(self, n, st, sink):
        if isinstance(n.op, ast.Add) and isinstance(n.left, ast.List) and not isinstance(n.right, ast.List) and \
                all(isinstance(e_, (ast.Name, ast.Constant)) for e_ in n.left.elts):
            # [x, y] + seq: the display takes the sequence type of the other operand (its elements are plain names or
            # constants, so evaluating the right operand first changes nothing)
            for st1, b in self.evx(n.right, st, sink):
                if isinstance(b.ty, T.ListT):
                    for st2, a in self.evx(n.left, st1.set_meta("want", b.ty), sink):
                        yield from self.binop(n.op, a, b, st2.set_meta("want", st.meta.get("want")), sink, n)
                else:
                    for st2, a in self.evx(n.left, st1, sink):
                        yield from self.binop(n.op, a, b, st2, sink, n)
            return
        for st1, a in self.evx(n.left, st, sink):
            for st2, b in self.evx(n.right, st1, sink):
                yield from self.binop(n.op, a, b, st2, sink, n)

    def binop(self, op, a, b, st, sink, n):
        if a.ty is T.PY and b.ty is T.PY and not isinstance(a.z, tuple):
            import operator
            f = {ast.Add: operator.add, ast.Sub: operator.sub, ast.Mult: operator.mul, ast.FloorDiv: operator.floordiv,
                 ast.Mod: operator.mod, ast.Pow: operator.pow, ast.BitOr: operator.or_}.get(type(op))
            if f is None:
                raise Unsupported("binary operator on constants", n)
            yield st, self.lift(f(a.z, b.z))
            return
        if isinstance(a.ty, T.SetT) or isinstance(b.ty, T.SetT):
            a, b = self.unify(a, b, n)
            if isinstance(op, ast.BitOr):
                yield st, V(a.ty, z3.SetUnion(a.z, b.z))
            elif isinstance(op, ast.BitAnd):
                yield st, V(a.ty, z3.SetIntersect(a.z, b.z))
            elif isinstance(op, ast.Sub):
                yield st, V(a.ty, z3.SetDifference(a.z, b.z))
            else:
                raise Unsupported("set operator", n)
            return
        if a.ty is T.STR or b.ty is T.STR:
            if isinstance(op, ast.Add):
                a2 = a if a.ty is T.STR else (self.to_str(a, n) if isinstance(a.ty, (T.Atom, T.ObjT)) else self.coerce(a, T.STR, n))
                b2 = b if b.ty is T.STR else (self.to_str(b, n) if isinstance(b.ty, (T.Atom, T.ObjT)) else self.coerce(b, T.STR, n))
                yield st, V(T.STR, self.concat([a2.z, b2.z]))
                return
            if isinstance(op, ast.Mult):
                raise Unsupported("string repetition", n)
            raise Unsupported("string operator", n)
        if isinstance(a.ty, T.ListT) and isinstance(op, ast.Add):
            b2 = self.coerce(b, a.ty, n)
            yield st, V(a.ty, z3.Concat(a.z, b2.z))
            return
        if isinstance(a.ty, T.ListV) and isinstance(op, ast.Add):
            b2 = self.coerce(b, a.ty, n)
            yield st, V(a.ty, a.ty.mk(z3.SetUnion(a.ty.elems(a.z), a.ty.elems(b2.z)), a.ty.len(a.z) + a.ty.len(b2.z)))
            return
        num = (T.INT, T.REAL, T.BOOL)
        if (a.ty in num or a.ty is T.PY) and (b.ty in num or b.ty is T.PY):
            if a.ty is T.PY:
                a = self.lift(a.z, want=b.ty if b.ty is T.REAL else None)
            if b.ty is T.PY:
                b = self.lift(b.z, want=a.ty if a.ty is T.REAL else None)
            if a.ty is T.BOOL:
                a = self.coerce(a, T.INT)
            if b.ty is T.BOOL:
                b = self.coerce(b, T.INT)
            if a.ty is not b.ty:
                a, b = self.coerce(a, T.REAL), self.coerce(b, T.REAL)
            if isinstance(op, ast.Add):
                yield st, V(a.ty, a.z + b.z)
            elif isinstance(op, ast.Sub):
                yield st, V(a.ty, a.z - b.z)
            elif isinstance(op, ast.Mult):
                yield st, V(a.ty, a.z * b.z)
            elif isinstance(op, ast.Pow) and a.ty is T.INT and z3.is_int_value(a.z) and a.z.as_long() == 2:
                yield st, V(T.INT, self.pow2(b.z))
            elif isinstance(op, (ast.FloorDiv, ast.Mod)) and a.ty is T.INT:
                zero = b.z == 0
                if st.mode != "spec" and self.feasible(st, zero):
                    sink.append((st.assume(zero), Exc(ZeroDivisionError)))
                st2 = st.assume(b.z != 0) if st.mode != "spec" else st
                # Python floor division/modulo (sign follows the divisor); z3 div is Euclidean
                q = z3.If(b.z > 0, a.z / b.z, (-a.z) / (-b.z))
                if isinstance(op, ast.FloorDiv):
                    yield st2, V(T.INT, q)
                else:
                    yield st2, V(T.INT, a.z - b.z * q)
            elif isinstance(op, ast.Div):
                ar, br = self.coerce(a, T.REAL), self.coerce(b, T.REAL)
                zero = br.z == 0
                if st.mode != "spec" and self.feasible(st, zero):
                    sink.append((st.assume(zero), Exc(ZeroDivisionError)))
                yield (st.assume(br.z != 0) if st.mode != "spec" else st), V(T.REAL, ar.z / br.z)
            else:
                raise Unsupported("arithmetic operator", n)
            return
        raise Unsupported(f"binary operator on {a.ty} and {b.ty}", n)

    def pow2(self, e):
        if not hasattr(self, "_pow2"):
            f = z3.RecFunction("pow2", z3.IntSort(), z3.IntSort())
            k = z3.Int("k")
            z3.RecAddDefinition(f, [k], z3.If(k <= 0, z3.IntVal(1), 2 * f(k - 1)))
            self._pow2 = f
        return self._pow2(e)

    def ev_Compare(self, n, st, sink):
        ops, comps = n.ops, n.comparators

        def rec(i, st, left, acc):
            if i == len(ops):
                yield st, V(T.BOOL, zand(*acc))
                return
            for st1, right in self.evx(comps[i], st, sink):
                c = self.compare(ops[i], left, right, st1, n)
                if st.mode == "spec" or i == len(ops) - 1:
                    yield from rec(i + 1, st1, right, acc + [c])
                else:
                    # short-circuit of chained comparison
                    if self.feasible(st1, z3.Not(c)):
                        yield st1.assume(z3.Not(c)), V(T.BOOL, z3.BoolVal(False))
                    yield from rec(i + 1, st1.assume(c), right, acc)

        for st0, left in self.evx(n.left, st, sink):
            yield from rec(0, st0, left, [])

    def compare(self, op, a, b, st, n):
        if isinstance(op, (ast.Is, ast.IsNot)):
            neg = isinstance(op, ast.IsNot)
            r = self.is_test(a, b, n)
            return z3.Not(r) if neg else r
        if isinstance(op, (ast.In, ast.NotIn)):
            r = self.contains(b, a, st, n)
            return z3.Not(r) if isinstance(op, ast.NotIn) else r
        if isinstance(op, (ast.Eq, ast.NotEq)):
            r = self.equal(a, b, n)
            return z3.Not(r) if isinstance(op, ast.NotEq) else r
        if isinstance(a.ty, T.SetT) and isinstance(b.ty, T.SetT):
            if isinstance(op, ast.LtE):
                return z3.IsSubset(a.z, b.z)
            if isinstance(op, ast.GtE):
                return z3.IsSubset(b.z, a.z)
            raise Unsupported("set comparison", n)
        ta, tb = self._as_pytuple(a, n), self._as_pytuple(b, n)
        if ta is not None and tb is not None:
            # tuples compare lexicographically
            if len(ta) != len(tb):
                raise Unsupported("ordering comparison of tuples of different lengths", n)
            strict_op = ast.Lt() if isinstance(op, (ast.Lt, ast.LtE)) else ast.Gt()
            res = z3.BoolVal(isinstance(op, (ast.LtE, ast.GtE)))          # all components equal
            for i, (x, y) in reversed(list(enumerate(zip(ta, tb)))):
                try:
                    lt_xy, eq_xy = self.compare(strict_op, x, y, st, n), self.equal(x, y, n)
                except Unsupported:
                    if i == 0:
                        raise
                    # components Python cannot order (None against a path): reached only when everything before ties,
                    # where Python raises TypeError; the outcome is left arbitrary (the exception is NOT modelled)
                    self.dropped.add("TypeError of an unorderable tuple component on a tie")
                    lt_xy, eq_xy = z3.FreshConst(z3.BoolSort(), "unorderable"), z3.BoolVal(False)
                res = z3.Or(lt_xy, z3.And(eq_xy, res))
            return res
        if isinstance(a.ty, T.Atom) and a.ty == b.ty:
            # abstract texts (paths, names): Python orders them as strings; here an arbitrary strict total order
            lt = self.atom_order(a.ty)
            x, y = (a.z, b.z) if isinstance(op, (ast.Lt, ast.LtE)) else (b.z, a.z)
            return lt(x, y) if isinstance(op, (ast.Lt, ast.Gt)) else z3.Or(lt(x, y), x == y)
        a2, b2 = a, b
        if a.ty is T.PY:
            a2 = self.lift(a.z, want=b.ty if b.ty is T.REAL else None)
        if b.ty is T.PY:
            b2 = self.lift(b.z, want=a.ty if a.ty is T.REAL else None)
        if a2.ty is T.INT and b2.ty is T.REAL:
            a2 = self.coerce(a2, T.REAL)
        if b2.ty is T.INT and a2.ty is T.REAL:
            b2 = self.coerce(b2, T.REAL)
        if a2.ty in (T.INT, T.REAL) and a2.ty is b2.ty:
            return {ast.Lt: lambda x, y: x < y, ast.LtE: lambda x, y: x <= y, ast.Gt: lambda x, y: x > y,
                    ast.GtE: lambda x, y: x >= y}[type(op)](a2.z, b2.z)
        if a2.ty is T.STR and b2.ty is T.STR:
            # z3 has str.< / str.<= (lexicographic by code point = Python's order)
            return {ast.Lt: lambda x, y: x < y, ast.LtE: lambda x, y: x <= y, ast.Gt: lambda x, y: y < x,
                    ast.GtE: lambda x, y: y <= x}[type(op)](a2.z, b2.z)
        raise Unsupported(f"ordering comparison on {a.ty} and {b.ty}", n)

    def _as_pytuple(self, v, n):
        if isinstance(v.ty, T.TupT):
            return self.tuple_items(v, n)
        if v.ty is T.PY and isinstance(v.z, tuple) and len(v.z) == 2 and v.z[0] == "pytuple":
            return list(v.z[1])
        return None

    def atom_order(self, ty):
        key = ("order", ty.name)
        if key not in self._tycache:
            lt = z3.Function("lt!" + ty.name, ty.sort(), ty.sort(), z3.BoolSort())
            x, y, w = (z3.Const(f"o{i}!{ty.name}", ty.sort()) for i in range(3))
            self.axioms.append(z3.ForAll([x], z3.Not(lt(x, x))))
            self.axioms.append(z3.ForAll([x, y, w], z3.Implies(z3.And(lt(x, y), lt(y, w)), lt(x, w)), patterns=[z3.MultiPattern(lt(x, y), lt(y, w))]))
            self.axioms.append(z3.ForAll([x, y], z3.Or(lt(x, y), lt(y, x), x == y), patterns=[lt(x, y)]))
            self._tycache[key] = lt
        return self._tycache[key]

    def is_test(self, a, b, n):
        if b.ty is T.NONE or (b.ty is T.PY and b.z is None):
            if isinstance(a.ty, T.Opt):
                return a.ty.is_none(a.z)
            if a.ty is T.NONE:
                return z3.BoolVal(True)
            if a.ty is T.PY:
                return z3.BoolVal(a.z is None)
            return z3.BoolVal(False)
        if a.ty is T.NONE:
            return self.is_test(b, a, n)
        if a.ty is T.PY and b.ty is T.PY:
            return z3.BoolVal(a.z is b.z)
        return self.equal(a, b, n)

    def equal(self, a, b, n=None):
        if a.ty is T.PY and b.ty is T.PY:
            return z3.BoolVal(a.z == b.z)
        if a.ty is T.FUN or b.ty is T.FUN:
            raise Unsupported("equality on callables", n)
        if a.ty is T.NONE and isinstance(b.ty, T.Opt):
            return b.ty.is_none(b.z)
        if b.ty is T.NONE and isinstance(a.ty, T.Opt):
            return a.ty.is_none(a.z)
        if (a.ty.name, b.ty.name) in self.eq_hooks:
            return self.eq_hooks[(a.ty.name, b.ty.name)](self, a, b)
        if (b.ty.name, a.ty.name) in self.eq_hooks:
            return self.eq_hooks[(b.ty.name, a.ty.name)](self, b, a)
        a2, b2 = self.unify(a, b, n)
        if a2 is None:
            # different static types: Python equality is False (e.g. str vs None)
            if {a.ty, b.ty} & {T.NONE}:
                return z3.BoolVal(False)
            raise Unsupported(f"equality on {a.ty} and {b.ty}", n)
        if isinstance(a2.ty, T.DictT):
            return self.dict_eq(a2, b2)
        if isinstance(a2.ty, T.ListV):
            raise Unsupported("equality on list views (use elems())", n)
        return a2.z == b2.z

    def dict_eq(self, a, b):
        t = a.ty
        k = z3.FreshConst(t.key.sort(), "k")
        return z3.And(t.dom(a.z) == t.dom(b.z),
                      z3.ForAll([k], z3.Implies(z3.Select(t.dom(a.z), k),
                                                z3.Select(t.vals(a.z), k) == z3.Select(t.vals(b.z), k))))

    def contains(self, coll, x, st, n):
        t = coll.ty
        if t.name in self.contains_hooks:
            return self.contains_hooks[t.name](self, coll, x)
        if isinstance(t, T.SetT):
            return z3.Select(coll.z, self.coerce(x, t.elem, n).z)
        if isinstance(t, T.ListV):
            return z3.Select(t.elems(coll.z), self.coerce(x, t.elem, n).z)
        if isinstance(t, T.ListT):
            return z3.Contains(coll.z, z3.Unit(self.coerce(x, t.elem, n).z))
        if isinstance(t, T.DictT):
            return z3.Select(t.dom(coll.z), self.coerce(x, t.key, n).z)
        if t is T.STR:
            return z3.Contains(coll.z, self.coerce(x, T.STR, n).z)
        if isinstance(t, T.TupT):
            return zor(*[self.equal(x, V(e, t.get(coll.z, i)), n) for i, e in enumerate(t.elems)])
        if isinstance(t, T.Opt):
            # membership in an optional collection: only meaningful when present
            return self.contains(V(t.elem, t.get(coll.z)), x, st, n)
        if t is T.PY:
            obj = coll.z
            if isinstance(obj, tuple) and len(obj) == 2 and obj[0] == "universe":
                return z3.BoolVal(True)
            if isinstance(obj, tuple) and len(obj) == 2 and obj[0] == "pytuple":
                return zor(*[self.equal(x, y, n) for y in obj[1]])
            if isinstance(obj, dict):
                obj = list(obj.keys())
            if isinstance(obj, (tuple, list, set, frozenset)) or hasattr(obj, "__iter__"):
                try:
                    items = list(obj)
                except TypeError:
                    raise Unsupported("membership in opaque python object", n)
                return zor(*[self.equal(x, self.lift(y), n) for y in items])
        if t.name in self.contains_hooks:
            return self.contains_hooks[t.name](self, coll, x)
        raise Unsupported(f"membership test on {t}", n)

    # ------------------------------------------------------------------ attribute / subscript
    def ev_Attribute(self, n, st, sink):
        for st1, base in self.evx(n.value, st, sink):
            yield from self.get_attr(base, n.attr, st1, sink, n)

    def class_of(self, name):
        return self.classes.get(name)

    def find_field(self, clsname, attr):
        """-> ('field'|'const'|'method', owner class decl, type/contract key) or None"""
        seen = []
        todo = [clsname]
        while todo:
            c = todo.pop(0)
            d = self.classes.get(c)
            if d is None or c in seen:
                continue
            seen.append(c)
            if attr in d.fields:
                return "field", d, d.fields[attr]
            if attr in d.consts:
                return "const", d, d.consts[attr]
            if attr in d.methods:
                return "method", d, d.methods[attr]
            todo.extend(d.bases)
        return None

    def heap_array(self, st, cls, field, fty):
        key = (cls, field)
        if key not in st.heap:
            raise Unsupported(f"heap field {cls}.{field} not initialised")
        return st.heap[key]

    def const_fn(self, cls, field, fty):
        key = ("constfn", cls, field)
        if key not in self._tycache:
            self._tycache[key] = z3.Function(f"{cls}.{field}", self.objT(cls).sort(), fty.sort())
        return self._tycache[key]

    def get_attr(self, base, attr, st, sink, n):
        t = base.ty
        if isinstance(t, T.Opt) and isinstance(t.elem, T.ObjT):
            # attribute of an optional object: None has no such attribute
            isn = t.is_none(base.z)
            if st.mode != "spec" and self.feasible(st, isn):
                sink.append((st.assume(isn), Exc(AttributeError)))
            st = st.assume(z3.Not(isn)) if st.mode != "spec" else st
            base = V(t.elem, t.get(base.z))
            t = base.ty
        if isinstance(t, T.ObjT):
            f = self.find_field(t.cls, attr)
            if f is None:
                key = self.method_key(t.cls, attr)
                if key is not None:
                    yield st, V(T.FUN, FunV("contract", key=key, self_v=base, name=attr))
                    return
                if (t.name, attr) in self.method_rules:
                    yield st, V(T.FUN, BoundBuiltin(base, attr, n.value))
                    return
                ikey = self.inline_method_key(t.cls, attr)
                if ikey is not None:
                    # a method of the real class that has no contract (a helper factored out of a function under
                    # contract): its body is executed in the caller's context
                    yield st, V(T.FUN, FunV("inline", key=ikey, self_v=base, name=attr))
                    return
                raise Unsupported(f"attribute {t.cls}.{attr} is not declared", n)
            kind, decl, info = f
            if kind == "field":
                arr = self.heap_array(st, decl.name, attr, info)
                bz = base.z
                yield st, V(info, z3.Select(arr, bz))
            elif kind == "const":
                if isinstance(info, tuple) and info[0] == "property":
                    # property with a contract
                    yield from self.call_contract(self.contracts[info[1]], [base], {}, st, sink, n)
                else:
                    yield st, V(info, self.const_fn(decl.name, attr, info)(base.z))
            else:
                yield st, V(T.FUN, FunV("contract", key=info, self_v=base, name=attr))
            return
        if t is T.PY:
            obj = base.z
            if isinstance(obj, tuple) and obj and obj[0] in ("pytuple", "universe"):
                raise Unsupported("attribute of tuple", n)
            try:
                val = getattr(obj, attr)
            except AttributeError:
                raise Unsupported(f"python object {obj!r} has no attribute {attr}", n)
            yield st, self.lift(val)
            return
        if t is EXC:
            raise Unsupported("attribute of exception value", n)
        if isinstance(t, T.EnumT) and attr in ("name", "value"):
            h = self.attr_hooks.get(("enum", attr))
            if h:
                yield st, h(self, base)
                return
        if (t.name, attr) in self.attr_hooks:
            yield st, self.attr_hooks[(t.name, attr)](self, base, st)
            return
        yield st, V(T.FUN, BoundBuiltin(base, attr, n.value))

    def inline_method_key(self, clsname, attr):
        seen, todo = [], [clsname]
        while todo:
            c = todo.pop(0)
            if c in seen:
                continue
            seen.append(c)
            d = self.classes.get(c)
            if d is None:
                continue
            if d.pyname:
                cand = f"{d.pyname}.{attr}"
                try:
                    node = self.front.find(cand, missing_ok=True)
                except Exception:
                    node = None
                if isinstance(node, ast.FunctionDef):
                    return cand
            todo.extend(d.bases)
        return None

    def method_key(self, clsname, attr):
        seen, todo = [], [clsname]
        while todo:
            c = todo.pop(0)
            if c in seen:
                continue
            seen.append(c)
            d = self.classes.get(c)
            pn = d.pyname if d is not None and d.pyname else None
            for cand in ([f"{pn}.{attr}"] if pn else []) + [f"iface:{c}.{attr}"]:
                if cand in self.contracts:
                    return cand
            if d is not None:
                todo.extend(d.bases)
        return None

    def ev_Subscript(self, n, st, sink):
        for st1, base in self.evx(n.value, st, sink):
            if isinstance(n.slice, ast.Slice):
                yield from self.slice_of(base, n.slice, st1, sink, n)
                continue
            for st2, idx in self.evx(n.slice, st1, sink):
                yield from self.subscript(base, idx, st2, sink, n)

    def subscript(self, base, idx, st, sink, n):
        t = base.ty
        code = st.mode != "spec"
        if t.name in self.subscript_hooks:
            yield from self.subscript_hooks[t.name](self, base, idx, st, sink, n)
            return
        if isinstance(t, T.DictT):
            k = self.coerce(idx, t.key, n).z
            present = z3.Select(t.dom(base.z), k)
            default = getattr(t, "default", None)
            if code and default is not None:
                # defaultdict: reading a missing key inserts the default (write back to the lvalue)
                dv = default(self)
                newd = t.mk(z3.Store(t.dom(base.z), k, True),
                            z3.If(present, t.vals(base.z), z3.Store(t.vals(base.z), k, dv)))
                st2 = self.write_back(n.value, st, V(t, newd), sink)
                yield st2, V(t.val, z3.Select(t.vals(newd), k))
                return
            if code and self.feasible(st, z3.Not(present)):
                sink.append((st.assume(z3.Not(present)), Exc(KeyError)))
            yield (st.assume(present) if code else st), V(t.val, z3.Select(t.vals(base.z), k))
            return
        if isinstance(t, T.MapT):
            yield st, V(t.val, z3.Select(base.z, self.coerce(idx, t.key, n).z))
            return
        if isinstance(t, T.ListT):
            i = self.coerce(idx, T.INT, n).z
            ln = z3.Length(base.z)
            ok = z3.And(i >= -ln, i < ln)
            if code and self.feasible(st, z3.Not(ok)):
                sink.append((st.assume(z3.Not(ok)), Exc(IndexError)))
            j = z3.If(i < 0, i + ln, i)
            yield (st.assume(ok) if code else st), V(t.elem, base.z[j])
            return
        if t is T.STR:
            i = self.coerce(idx, T.INT, n).z
            ln = z3.Length(base.z)
            ok = z3.And(i >= -ln, i < ln)
            if code and self.feasible(st, z3.Not(ok)):
                sink.append((st.assume(z3.Not(ok)), Exc(IndexError)))
            j = z3.If(i < 0, i + ln, i)
            yield (st.assume(ok) if code else st), V(T.STR, z3.SubString(base.z, j, 1))
            return
        if isinstance(t, T.TupT):
            if not (idx.ty is T.INT and z3.is_int_value(idx.z)):
                raise Unsupported("tuple index must be constant", n)
            i = idx.z.as_long()
            yield st, V(t.elems[i], t.get(base.z, i))
            return
        if isinstance(t, T.Opt):
            # subscripting None raises TypeError
            isn = t.is_none(base.z)
            if code and self.feasible(st, isn):
                sink.append((st.assume(isn), Exc(TypeError)))
            yield from self.subscript(V(t.elem, t.get(base.z)), idx, st.assume(z3.Not(isn)) if code else st, sink, n)
            return
        if t is T.PY:
            obj = base.z
            if isinstance(obj, tuple) and obj and obj[0] == "pytuple":
                if idx.ty is T.INT and z3.is_int_value(idx.z):
                    yield st, obj[1][idx.z.as_long()]
                    return
            if idx.ty is T.PY or (idx.ty is T.INT and z3.is_int_value(idx.z)) or (
                    idx.ty is T.STR and z3.is_string_value(idx.z)):
                key = idx.z if idx.ty is T.PY else (idx.z.as_long() if idx.ty is T.INT else idx.z.as_string())
                try:
                    yield st, self.lift(obj[key])
                except (KeyError, IndexError) as e:
                    sink.append((st, Exc(type(e))))
                return
            if isinstance(obj, dict):
                yield from self.table_lookup(obj, idx, st, sink, n)
                return
            if isinstance(obj, type) and issubclass(obj, enum.Enum):
                # Enum["NAME"] lookup by symbolic name
                yield from self.table_lookup({m.name: m for m in obj}, idx, st, sink, n)
                return
        if t.name in self.subscript_hooks:
            yield from self.subscript_hooks[t.name](self, base, idx, st, sink, n)
            return
        raise Unsupported(f"subscript on {t}", n)

    def table_lookup(self, table, idx, st, sink, n, default_exc=KeyError):
        """concrete dict indexed by a symbolic key: if-chain over the concrete keys"""
        import collections
        items = list(table.items())
        if not items:
            sink.append((st, Exc(default_exc)))
            return
        vals = [self.lift(v) for _, v in items]
        vty = vals[0].ty
        if any(v.ty != vty for v in vals):
            raise Unsupported("heterogeneous table", n)
        if vty is T.PY:
            raise Unsupported("table with opaque values indexed symbolically", n)
        conds = [self.equal(idx, self.lift(k), n) for k, _ in items]
        hit = zor(*conds)
        isdd = isinstance(table, collections.defaultdict) and table.default_factory is not None
        if isdd:
            dflt = self.coerce(self.lift(table.default_factory()), vty, n).z
        else:
            dflt = vals[-1].z
            if st.mode != "spec" and self.feasible(st, z3.Not(hit)):
                sink.append((st.assume(z3.Not(hit)), Exc(default_exc)))
            st = st.assume(hit) if st.mode != "spec" else st
        z = dflt
        for c, v in reversed(list(zip(conds, vals))):
            z = z3.If(c, v.z, z)
        yield st, V(vty, z)

    def slice_of(self, base, sl, st, sink, n):
        if sl.step is not None:
            raise Unsupported("slice step", n)
        lo_n, hi_n = sl.lower, sl.upper
        for st1, los in self.ev_list([lo_n] if lo_n is not None else [], st, sink):
            for st2, his in self.ev_list([hi_n] if hi_n is not None else [], st1, sink):
                t = base.ty
                if t is T.STR or isinstance(t, T.ListT):
                    ln = z3.Length(base.z)

                    def clamp(v):
                        i = self.coerce(v, T.INT, n).z
                        i = z3.If(i < 0, i + ln, i)
                        return z3.If(i < 0, z3.IntVal(0), z3.If(i > ln, ln, i))

                    lo = clamp(los[0]) if los else z3.IntVal(0)
                    hi = clamp(his[0]) if his else ln
                    length = z3.If(hi > lo, hi - lo, z3.IntVal(0))
                    if t is T.STR:
                        yield st2, V(T.STR, z3.SubString(base.z, lo, length))
                    else:
                        yield st2, V(t, z3.Extract(base.z, lo, length))
                else:
                    raise Unsupported(f"slice of {t}", n)

    # ------------------------------------------------------------------ lambdas, comprehensions
    def ev_Lambda(self, n, st, sink):
        yield st, V(T.FUN, FunV("lambda", node=n, env=st.env))

    def iter_view(self, coll, st, n):
        """-> (elem type, membership predicate maker x-> z3 Bool, unique: bool) for a modelled iterable"""
        t = coll.ty
        if isinstance(t, T.SetT):
            return t.elem, (lambda x: z3.Select(coll.z, x)), True
        if isinstance(t, T.ListV):
            # a list built from a set / dict view has no repeated element
            return t.elem, (lambda x: z3.Select(t.elems(coll.z), x)), coll.aux == ("unique",)
        if isinstance(t, T.ListT):
            return t.elem, (lambda x: z3.Contains(coll.z, z3.Unit(x))), False
        if isinstance(t, T.DictT):
            return t.key, (lambda x: z3.Select(t.dom(coll.z), x)), True
        if t is T.PY and isinstance(coll.z, tuple) and len(coll.z) == 2 and coll.z[0] == "universe":
            return coll.z[1], (lambda x: z3.BoolVal(True)), True
        if hasattr(t, "py_iter_view"):
            return t.py_iter_view(self, coll, st)
        if t.name in self.iter_hooks:
            return self.iter_hooks[t.name](self, coll, st)
        raise Unsupported(f"iteration over {t}", n)

    def bind_target(self, target, v, st, n):
        """bind a comprehension / for target (Name or Tuple of Names) to value v"""
        if isinstance(target, ast.Name):
            return st.set_var(target.id, v)
        if isinstance(target, (ast.Tuple, ast.List)):
            items = self.tuple_items(v, n)
            if len(items) != len(target.elts):
                raise Unsupported("unpacking arity", n)
            for tnode, item in zip(target.elts, items):
                st = self.bind_target(tnode, item, st, n)
            return st
        raise Unsupported("binding target", n)

    def comp_eval(self, n, elt_nodes, st, sink):
        """shared by comprehensions / quantifiers: iterate generators with fresh bound constants.
        yields (bound consts, guard z3, [elt values], state) for the single symbolic instance."""
        gens = n.generators

        outer = [st]

        def rec(i, st, bound, guards):
            if i == len(gens):
                for st2, vs in self.ev_list(elt_nodes, st, sink):
                    # facts assumed while evaluating one element normally (e.g. "the key is present"): on the
                    # normal path of the comprehension they hold for EVERY element
                    base = len(outer[0].pc)
                    extra = [f for f in st2.pc[base:]]
                    o2 = outer[0]
                    if st.mode != "spec" and bound and extra:
                        o2 = o2.assume(z3.ForAll(bound, zand(*extra)) if not guards else
                                       z3.ForAll(bound, z3.Implies(zand(*guards), zand(*extra))))
                    yield bound, zand(*guards), vs, o2
                return
            g = gens[i]
            if g.is_async:
                raise Unsupported("async comprehension", n)
            for st1, coll in self.evx(g.iter, st, sink):
                if coll.ty is T.PY and not (isinstance(coll.z, tuple) and coll.z and coll.z[0] == "universe"):
                    raise Unsupported("comprehension over concrete python iterable", n)
                if i == 0:
                    outer[0] = st1  # the first iterable is evaluated in the enclosing scope
                ety, member, _ = self.iter_view(coll, st1, n)
                x = ety.fresh("b")
                inv = ety.inv(x)
                st2 = self.bind_target(g.target, self.iter_elem(coll, V(ety, x), st1), st1, n)
                gs = [member(x)] + ([inv] if inv is not None else [])
                st2 = st2.assume(*gs) if st.mode != "spec" else st2
                if st.mode == "spec":
                    nms = tuple(x_.id for x_ in ast.walk(g.target) if isinstance(x_, ast.Name))
                    st2 = st2.set_meta("spec_bound", tuple(st2.meta.get("spec_bound", ())) + nms)

                def conds(j, st3, acc):
                    if j == len(g.ifs):
                        yield from rec(i + 1, st3, bound + [x], guards + gs + acc)
                        return
                    for st4, c in self.evx(g.ifs[j], st3, sink):
                        cz = self.truthy(c, n)
                        yield from conds(j + 1, st4.assume(cz) if st.mode != "spec" else st4, acc + [cz])

                yield from conds(0, st2.clone(binder=st2.binder + 1), [])

        yield from rec(0, st, [], [])

    def _comp_image(self, n, elts, st, sink):
        inner = []
        res = list(self.comp_eval(n, elts, st, inner))
        for est, exc in inner:
            # an exception raised for some element leaves the comprehension: enclosing scope, no binder
            sink.append((est.clone(env=st.env, binder=st.binder), exc))
        if len(res) != 1:
            raise Unsupported("comprehension body forks (conditional inside element expression)", n)
        return res[0]

    def ev_ListComp(self, n, st, sink):
        if len(n.generators) == 1 and not n.generators[0].ifs and isinstance(n, ast.GeneratorExp):
            # generator over a concrete python tuple (e.g. a module-level table of functions): kept lazy
            res = []
            sk = []
            for st1, it in self.evx(n.generators[0].iter, st, sk):
                res.append((st1, it))
            if len(res) == 1 and not sk and res[0][1].ty is T.PY and isinstance(res[0][1].z, (tuple, list)) \
                    and not (res[0][1].z and res[0][1].z[0] in ("pytuple", "universe", "range", "enumerate")):
                yield res[0][0], V(T.PY, ("pygen", n, dict(st.env), list(res[0][1].z)))
                return
            if len(res) == 1 and not sk and res[0][1].ty is T.STR:
                # generator over the characters of a string: kept lazy, consumed by an indexed loop
                yield res[0][0], V(T.PY, ("strgen", n, dict(st.env), res[0][1]))
                return
            if len(res) == 1 and res[0][1].ty.name in self.strgen_hooks:
                yield from self.strgen_hooks[res[0][1].ty.name](self, n, res[0][0], res[0][1], sink)
                return
            sink.extend(sk)
        bound, guard, (v,), st2 = self._comp_image(n, [n.elt], st, sink)
        if v.ty in (T.PY, T.FUN):
            raise Unsupported("comprehension producing opaque values", n)
        lt = T.ListV(v.ty)
        y = v.ty.fresh("y")
        elems = z3.Lambda([y], z3.Exists(bound, z3.And(guard, y == v.z)))
        # the list view is built directly from the image set (no equation with a lambda in the path
        # condition unless the element set is actually used)
        nlen = z3.FreshConst(z3.IntSort(), "complen")
        res = V(lt, lt.mk(elems, nlen))
        none = z3.Not(z3.Exists(bound, guard))
        st3 = st2.clone(binder=st.binder).assume(nlen >= 0, (nlen == 0) == none)
        res.aux = ("image", bound, guard, v)
        yield st3.clone(env=st.env), res

    ev_GeneratorExp = ev_ListComp

    def ev_SetComp(self, n, st, sink):
        bound, guard, (v,), st2 = self._comp_image(n, [n.elt], st, sink)
        stt = T.SetT(v.ty)
        y = v.ty.fresh("y")
        yield st2.clone(env=st.env, binder=st.binder), V(stt, z3.Lambda([y], z3.Exists(bound, z3.And(guard, y == v.z))),
                                                         aux=("image", bound, guard, v))

    def ev_DictComp(self, n, st, sink):
        bound, guard, (k, v), st2 = self._comp_image(n, [n.key, n.value], st, sink)
        want = st.meta.get("want")
        dt = want if isinstance(want, T.DictT) else T.DictT(k.ty, v.ty)
        k, v = self.coerce(k, dt.key, n), self.coerce(v, dt.val, n)
        res, st3 = self.fresh(dt, "dcomp", st2.clone(binder=st.binder))
        y = dt.key.fresh("y")
        dom = z3.Lambda([y], z3.Exists(bound, z3.And(guard, y == k.z)))
        vals = dt.vals(res.z)
        # every stored value comes from some generating element with that key (last one wins)
        src = z3.ForAll([y], z3.Implies(z3.Select(dom, y),
                                        z3.Exists(bound, z3.And(guard, y == k.z, z3.Select(vals, y) == v.z))))
        st3 = st3.assume(dt.dom(res.z) == dom, src)
        yield st3.clone(env=st.env), res

    # ------------------------------------------------------------------ await / starred / misc
    def ev_Await(self, n, st, sink):
        yield from self.do_await(n, st, sink)

    def ev_Starred(self, n, st, sink):
        raise Unsupported("starred expression", n)

    def ev_NamedExpr(self, n, st, sink):
        raise Unsupported("walrus", n)

    # ------------------------------------------------------------------ feasibility pruning
    def feasible(self, st, cond, timeout_ms=300):
        """False only when pc ∧ cond is definitely unsatisfiable (sound pruning)"""
        if z3.is_false(cond):
            return False
        if z3.is_true(cond) and not st.pc:
            return True
        mode = os.environ.get("PYVC_PRUNE", "shared")
        fresh = mode != "shared"
        # "fresh" / "fresh-tactic": a new solver object for every query, no push/pop history (the fallback modes of a
        # worker whose earlier attempt crashed inside libz3; same answers up to `unknown`, which keeps the path)
        s = self._prune_solver if not fresh else z3.SimpleSolver() if mode == "fresh" else z3.Solver()
        if mode != "fresh-tactic":
            s.push()
        try:
            # resource limit instead of a wall-clock timeout: deterministic, and no timer thread
            s.set("rlimit", 300000)
            s.add(*st.pc)
            s.add(cond)
            self.stats["prune_queries"] += 1
            return s.check() != z3.unsat
        finally:
            if not fresh:
                s.pop()

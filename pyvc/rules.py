"""pyvc builtin rules: the Python builtins / stdlib calls and container methods the engine
gives semantics to. Everything here is part of the trusted encoding of CPython."""
import ast
import functools
import os
import z3
from . import ty as T
from .core import V, Exc, EXC, FunV, Unsupported, Outcome
from .expr import BoundBuiltin, zand, zor


# ---------------------------------------------------------------------- dict views
class ItemsT(T.Ty):
    """d.items(): iterating yields (k, d[k]) for every key, each once"""

    def __init__(self, dt):
        self.dt = dt
        self.name = "Items_" + dt.name

    def sort(self):
        return self.dt.sort()

    def py_iter_view(self, eng, coll, st):
        dt = self.dt
        return dt.key, (lambda x: z3.Select(dt.dom(coll.z), x)), True

    def py_iter_elem(self, eng, coll, x, st):
        dt = self.dt
        return eng.mk_tuple([x, V(dt.val, z3.Select(dt.vals(coll.z), x.z))])


class ValuesT(T.Ty):
    """d.values(): iteration is by key (each key once), the bound element is d[k]"""

    def __init__(self, dt):
        self.dt = dt
        self.name = "Values_" + dt.name

    def sort(self):
        return self.dt.sort()

    def py_iter_view(self, eng, coll, st):
        dt = self.dt
        return dt.key, (lambda x: z3.Select(dt.dom(coll.z), x)), True

    def py_iter_elem(self, eng, coll, x, st):
        dt = self.dt
        return V(dt.val, z3.Select(dt.vals(coll.z), x.z))


class DDictT(T.DictT):
    """collections.defaultdict: reading a missing key inserts default()"""

    def __init__(self, key, val, default):
        super().__init__(key, val)
        self.default = default


def values_set(eng, d):
    """set of values of a dict as a z3 set"""
    dt = d.ty
    k = dt.key.fresh("k")
    y = dt.val.fresh("y")
    return z3.Lambda([y], z3.Exists([k], z3.And(z3.Select(dt.dom(d.z), k), z3.Select(dt.vals(d.z), k) == y)))


# ---------------------------------------------------------------------- function rules
def r_len(eng, args, kw, st, sink, n):
    (x,) = args
    t = x.ty
    if isinstance(t, T.ListV):
        yield st, V(T.INT, t.len(x.z))
    elif isinstance(t, T.ListT) or t is T.STR:
        yield st, V(T.INT, z3.Length(x.z))
    elif t is T.PY and hasattr(x.z, "__len__"):
        yield st, eng.lift(len(x.z))
    elif hasattr(t, "py_len"):
        yield st, t.py_len(eng, x, st)
    else:
        raise Unsupported(f"len() of {t}", n)


def r_isinstance(eng, args, kw, st, sink, n):
    x, cls = args
    if cls.ty is not T.PY:
        raise Unsupported("isinstance with symbolic class", n)
    classes = cls.z if isinstance(cls.z, tuple) else (cls.z,)
    t = x.ty
    if t is T.PY:
        yield st, eng.lift(isinstance(x.z, classes))
        return
    if t.name in eng.isinstance_hooks:
        yield st, eng.isinstance_hooks[t.name](eng, x, classes, st, n)
        return
    prim = {T.STR: str, T.INT: int, T.BOOL: bool, T.REAL: float}
    if t in prim:
        yield st, eng.lift(any(issubclass(prim[t], c) for c in classes))
        return
    if isinstance(t, T.DictT):
        import collections.abc
        yield st, eng.lift(any(issubclass(dict, c) for c in classes))
        return
    if isinstance(t, (T.ListT, T.ListV)):
        yield st, eng.lift(any(issubclass(list, c) for c in classes))
        return
    if isinstance(t, T.ObjT):
        d = eng.classes.get(t.cls)
        if d is not None and d.pyname:
            import importlib
            mod, _, qn = d.pyname.partition(":")
            real = functools.reduce(getattr, qn.split("."), importlib.import_module(mod))
            yield st, eng.lift(any(issubclass(real, c) for c in classes))
            return
    raise Unsupported(f"isinstance on {t}", n)


def r_hasattr(eng, args, kw, st, sink, n):
    x, name = args
    nm = name.z if name.ty is T.PY else (name.z.as_string() if z3.is_string_value(name.z) else None)
    if nm is None:
        raise Unsupported("hasattr with symbolic name", n)
    t = x.ty
    if t.name in eng.hasattr_hooks:
        yield st, eng.hasattr_hooks[t.name](eng, x, nm, st, n)
    elif isinstance(t, T.ObjT):
        ok = eng.find_field(t.cls, nm) is not None or eng.method_key(t.cls, nm) is not None
        hook = eng.hasattr_obj.get((t.cls, nm))
        yield st, (hook(eng, x, st) if hook else eng.lift(ok))
    elif t is T.PY:
        yield st, eng.lift(hasattr(x.z, nm))
    elif t is T.STR:
        yield st, eng.lift(hasattr("", nm))
    elif t is T.FUN:
        yield st, eng.lift(nm in ("__name__", "__class__", "__call__"))
    else:
        raise Unsupported(f"hasattr on {t}", n)


def r_getattr(eng, args, kw, st, sink, n):
    """getattr(obj, "name"[, default]) with a literal name on a modelled object: the attribute when the class
    declares it (the default is then never used), the default when it does not"""
    if len(args) not in (2, 3):
        raise Unsupported("getattr arity", n)
    x, name = args[0], args[1]
    nm = name.z if name.ty is T.PY else (name.z.as_string() if z3.is_string_value(name.z) else None)
    if not isinstance(nm, str):
        raise Unsupported("getattr with symbolic name", n)
    t = x.ty
    if t is T.PY:
        if hasattr(x.z, nm):
            yield st, eng.lift(getattr(x.z, nm))
        elif len(args) == 3:
            yield st, args[2]
        else:
            sink.append((st, Exc(AttributeError)))
        return
    if isinstance(t, T.ObjT) and (t.cls, nm) not in eng.hasattr_obj:
        declared = eng.find_field(t.cls, nm) is not None or eng.method_key(t.cls, nm) is not None
        if declared:
            node = ast.copy_location(ast.Attribute(value=n.args[0], attr=nm, ctx=ast.Load()), n)
            yield from eng.get_attr(x, nm, st, sink, node)
            return
        if len(args) == 3:
            yield st, args[2]
            return
    raise Unsupported(f"getattr on {t}", n)


def as_listv(eng, x, st, n, want=None):
    t = x.ty
    if isinstance(t, T.ListV):
        return x, st
    if isinstance(t, T.ListT):
        return eng.seq_to_listv(x), st
    if isinstance(t, T.SetT):
        lt = T.ListV(t.elem)
        r, st = eng.fresh(lt, "lst", st)
        r.aux = ("unique",)
        return r, st.assume(lt.elems(r.z) == x.z)
    if isinstance(t, T.DictT) and not isinstance(t, (ItemsT, ValuesT)):
        lt = T.ListV(t.key)
        r, st = eng.fresh(lt, "keys", st)
        r.aux = ("unique",)
        return r, st.assume(lt.elems(r.z) == t.dom(x.z))
    if isinstance(t, ItemsT):
        dt = t.dt
        tt = T.TupT(dt.key, dt.val)
        lt = T.ListV(tt)
        p = tt.fresh("p")
        elems = z3.Lambda([p], z3.And(z3.Select(dt.dom(x.z), tt.get(p, 0)),
                                      z3.Select(dt.vals(x.z), tt.get(p, 0)) == tt.get(p, 1)))
        r, st = eng.fresh(lt, "items", st)
        r.aux = ("unique",)
        k = dt.key.fresh("k")
        return r, st.assume(lt.elems(r.z) == elems, (lt.len(r.z) == 0) == z3.Not(z3.Exists([k], z3.Select(dt.dom(x.z), k))))
    if isinstance(t, ValuesT):
        dt = t.dt
        lt = T.ListV(dt.val)
        r, st = eng.fresh(lt, "values", st)
        k = dt.key.fresh("k")
        return r, st.assume(lt.elems(r.z) == values_set(eng, V(dt, x.z)),
                            (lt.len(r.z) == 0) == z3.Not(z3.Exists([k], z3.Select(dt.dom(x.z), k))))
    if t is T.PY and isinstance(x.z, (list, tuple)) and want is not None:
        s = T.SetT(want.elem).empty()
        for y in x.z:
            s = z3.Store(s, eng.coerce(eng.lift(y), want.elem, n).z, True)
        return V(want, want.mk(s, z3.IntVal(len(x.z)))), st
    if t.name in eng.iter_hooks:
        ety, member, uniq = eng.iter_hooks[t.name](eng, x, st)
        lt = T.ListV(ety)
        y = ety.fresh("y")
        r, st = eng.fresh(lt, "lst", st)
        if uniq:
            r.aux = ("unique",)
        return r, st.assume(lt.elems(r.z) == z3.Lambda([y], member(y)))
    raise Unsupported(f"cannot view {t} as a list", n)


def r_sorted(eng, args, kw, st, sink, n):
    # order is abstracted: the result is the same collection as a list view, so every
    # iteration order (in particular the sorted one) is covered by the for-each rule
    (x,) = args
    for k in kw:
        if k not in ("key", "reverse"):
            raise Unsupported("sorted() keyword", n)
    r, st = as_listv(eng, x, st, n)
    yield st, r


def r_list(eng, args, kw, st, sink, n):
    want = st.meta.get("want")
    if not args:
        if isinstance(want, T.ListT):
            yield st, V(want, z3.Empty(want.sort()))
        elif isinstance(want, T.ListV):
            yield st, V(want, want.mk(T.SetT(want.elem).empty(), z3.IntVal(0)))
        else:
            yield st, V(T.PY, [])
        return
    x = args[0]
    if isinstance(x.ty, T.ListT):
        yield st, x
        return
    if x.ty is T.PY and isinstance(x.z, (list, tuple, dict)) and not isinstance(want, (T.ListV, T.ListT)):
        yield st, V(T.PY, list(x.z))
        return
    r, st = as_listv(eng, x, st, n, want if isinstance(want, T.ListV) else None)
    yield st, r


def r_set(eng, args, kw, st, sink, n):
    want = st.meta.get("want")
    if not args:
        if isinstance(want, T.SetT):
            yield st, V(want, want.empty())
            return
        if want is not None and want.name in eng.empty_hooks:
            yield st, eng.empty_hooks[want.name](eng)
            return
        raise Unsupported("set() needs a declared type", n)
    x = args[0]
    t = x.ty
    if isinstance(t, T.SetT):
        yield st, x
    elif isinstance(t, T.ListV):
        yield st, V(T.SetT(t.elem), t.elems(x.z))
    elif isinstance(t, T.ListT):
        lv = eng.seq_to_listv(x)
        yield st, V(T.SetT(t.elem), lv.ty.elems(lv.z))
    elif isinstance(t, ValuesT):
        yield st, V(T.SetT(t.dt.val), values_set(eng, V(t.dt, x.z)))
    elif isinstance(t, T.DictT) and not isinstance(t, ItemsT):
        yield st, V(T.SetT(t.key), t.dom(x.z))
    elif t is T.PY and isinstance(want, T.SetT):
        yield st, eng.coerce(x, want, n)
    else:
        raise Unsupported(f"set() of {t}", n)


def r_dict(eng, args, kw, st, sink, n):
    want = st.meta.get("want")
    if not args and not kw:
        if isinstance(want, T.DictT):
            yield st, V(want, want.empty())
        else:
            yield st, V(T.PY, {})
        return
    if len(args) == 1 and not kw:
        x = args[0]
        if isinstance(x.ty, T.ListV) and isinstance(x.ty.elem, T.TupT) and len(x.ty.elem.elems) == 2 \
                and isinstance(x.aux, tuple) and x.aux[0] == "image":
            # dict(<generator of (key, value) pairs>)
            _, bound, guard, elt = x.aux
            tt = x.ty.elem
            dt = want if isinstance(want, T.DictT) else T.DictT(tt.elems[0], tt.elems[1])
            kz = eng.coerce(V(tt.elems[0], tt.get(elt.z, 0)), dt.key, n).z
            vz = eng.coerce(V(tt.elems[1], tt.get(elt.z, 1)), dt.val, n).z
            res, st2 = eng.fresh(dt, "dict", st)
            y = dt.key.fresh("y")
            dom = z3.Lambda([y], z3.Exists(bound, z3.And(guard, y == kz)))
            vals = dt.vals(res.z)
            src = z3.ForAll([y], z3.Implies(z3.Select(dom, y),
                                            z3.Exists(bound, z3.And(guard, y == kz, z3.Select(vals, y) == vz))))
            yield st2.assume(dt.dom(res.z) == dom, src), res
            return
        if isinstance(x.ty, T.DictT):
            yield st, V(want if isinstance(want, T.DictT) and not isinstance(x.ty, (ItemsT, ValuesT)) else
                        T.DictT(x.ty.key, x.ty.val), x.z)
            return
        if x.ty is T.PY and isinstance(x.z, dict):
            if isinstance(want, T.DictT):
                yield st, eng.coerce(x, want, n)
            else:
                yield st, V(T.PY, dict(x.z))
            return
    raise Unsupported("dict(...) form", n)


def r_tuple(eng, args, kw, st, sink, n):
    (x,) = args
    if x.ty is T.PY:
        yield st, V(T.PY, tuple(x.z))
    elif isinstance(x.ty, (T.ListT, T.ListV, T.TupT)):
        yield st, x
    else:
        raise Unsupported(f"tuple() of {x.ty}", n)


def _extreme(which):
    def rule(eng, args, kw, st, sink, n):
        """max/min over a list view of numbers or of tuples ordered by a numeric first component."""
        if len(args) != 1:
            raise Unsupported(f"{which}() with several positional arguments", n)
        if "key" in kw:
            raise Unsupported(f"{which}(key=)", n)
        x, st = as_listv(eng, args[0], st, n)
        src = args[0].aux if isinstance(args[0].aux, tuple) and args[0].aux[0] == "image" else None
        lt = x.ty
        ety = lt.elem
        if isinstance(ety, T.TupT):
            first = lambda z: ety.get(z, 0)
            fty = ety.elems[0]
        else:
            first = lambda z: z
            fty = ety
        if fty not in (T.INT, T.REAL):
            raise Unsupported(f"{which}() over {ety}", n)
        empty = lt.len(x.z) == 0
        unpack = (lambda v: V(T.PY, ("pytuple", tuple(eng.tuple_items(v, n))))) if isinstance(ety, T.TupT) \
            else (lambda v: v)
        if "default" in kw:
            d = kw["default"]
            if not isinstance(ety, T.TupT):
                d = eng.coerce(d, ety, n)
            if eng.feasible(st, empty):
                yield st.assume(empty), unpack(d)
        else:
            if eng.feasible(st, empty):
                sink.append((st.assume(empty), Exc(ValueError)))
        r, st2 = eng.fresh(ety, which, st.assume(z3.Not(empty)))
        y = ety.fresh("y")
        cmpf = (lambda a, b: a <= b) if which == "max" else (lambda a, b: a >= b)
        if src is not None:
            # the list is the image of a comprehension: state the extremum over the source elements
            # (skolem witness + plain universal) instead of over the lambda-defined image set
            _, bound, guard, elt = src
            ws = [z3.FreshConst(b.sort(), "w") for b in bound]
            sub = list(zip(bound, ws))
            st2 = st2.assume(z3.substitute(guard, *sub), r.z == z3.substitute(elt.z, *sub),
                             z3.ForAll(bound, z3.Implies(guard, cmpf(first(elt.z), first(r.z)))))
        else:
            st2 = st2.assume(z3.Select(lt.elems(x.z), r.z),
                             z3.ForAll([y], z3.Implies(z3.Select(lt.elems(x.z), y), cmpf(first(y), first(r.z)))))
        if eng.feasible(st2, z3.BoolVal(True)):
            yield st2, unpack(r)

    return rule


def r_float(eng, args, kw, st, sink, n):
    (x,) = args
    if x.ty is T.PY and isinstance(x.z, (str, int, float)):
        yield st, eng.lift(float(x.z))
    elif x.ty is T.STR and z3.is_string_value(x.z):
        yield st, eng.lift(float(x.z.as_string()))
    elif x.ty is T.INT:
        yield st, V(T.REAL, z3.ToReal(x.z))
    else:
        raise Unsupported("float() of symbolic value", n)


def r_str(eng, args, kw, st, sink, n):
    if not args:
        yield st, eng.lift("")
        return
    yield st, eng.to_str(args[0], n)


def r_bool(eng, args, kw, st, sink, n):
    yield st, V(T.BOOL, eng.truthy(args[0], n))


def r_range(eng, args, kw, st, sink, n):
    a = [eng.coerce(x, T.INT, n).z for x in args]
    if len(a) == 1:
        a = [z3.IntVal(0), a[0], z3.IntVal(1)]
    elif len(a) == 2:
        a = a + [z3.IntVal(1)]
    yield st, V(T.PY, ("range", tuple(a)))


def r_enumerate(eng, args, kw, st, sink, n):
    (x,) = args
    yield st, V(T.PY, ("enumerate", x))


def r_partial(eng, args, kw, st, sink, n):
    f = args[0]
    yield st, V(T.FUN, FunV("partial", func=f, args=list(args[1:]), kwargs=dict(kw)))


def r_defaultdict(eng, args, kw, st, sink, n):
    want = st.meta.get("want")
    if isinstance(want, DDictT) and len(args) == 1:
        yield st, V(want, want.empty())
        return
    raise Unsupported("defaultdict(...) needs a declared DDict local type", n)


def r_filter(eng, args, kw, st, sink, n):
    f, it = args
    if it.ty is T.PY and isinstance(it.z, tuple) and it.z and it.z[0] == "pygen":
        yield st, V(T.PY, ("pyfilter", f, it.z))
        return
    raise Unsupported("filter() over a symbolic iterable", n)


def r_next(eng, args, kw, st, sink, n):
    """next(filter(pred, (f(x) for f in CONCRETE_TUPLE)), default): unrolled in order, forking on pred"""
    it = args[0]
    if not (it.ty is T.PY and isinstance(it.z, tuple) and it.z and it.z[0] == "pyfilter"):
        raise Unsupported("next() of this iterator", n)
    _, pred, (_, gen, env, items) = it.z
    target = gen.generators[0].target

    def rec(i, st):
        if i == len(items):
            if len(args) > 1:
                yield st, args[1]
            else:
                sink.append((st, Exc(StopIteration)))
            return
        e2 = dict(env)
        st1 = eng.bind_target(target, eng.lift(items[i]), st.clone(env=e2), n)
        for st2, v in eng.evx(gen.elt, st1, sink):
            st2 = st2.clone(env=st.env)
            for st3, keep in eng.apply(pred, [v], {}, st2, sink, n):
                k = eng.truthy(keep, n)
                if eng.feasible(st3, k):
                    yield st3.assume(k), v
                if eng.feasible(st3, z3.Not(k)):
                    yield from rec(i + 1, st3.assume(z3.Not(k)))

    yield from rec(0, st)


def r_noop(eng, args, kw, st, sink, n):
    yield st, eng.lift(None)


def r_identity(eng, args, kw, st, sink, n):
    yield st, args[0]


# ---------------------------------------------------------------------- method rules
def m_append(eng, bb, args, kw, st, sink, n):
    recv = bb.recv
    t = recv.ty
    (x,) = args
    if isinstance(t, T.ListV):
        xz = eng.coerce(x, t.elem, n).z
        nv = V(t, t.mk(z3.Store(t.elems(recv.z), xz, True), t.len(recv.z) + 1))
    elif isinstance(t, T.ListT):
        nv = V(t, z3.Concat(recv.z, z3.Unit(eng.coerce(x, t.elem, n).z)))
    else:
        raise Unsupported(f"append on {t}", n)
    st2 = eng.write_back(bb.recv_node, st, nv, sink)
    yield eng.after_mutation(st2, bb, "append", [x], nv), eng.lift(None)


def m_add(eng, bb, args, kw, st, sink, n):
    recv = bb.recv
    t = recv.ty
    (x,) = args
    nv = V(t, z3.Store(recv.z, eng.coerce(x, t.elem, n).z, True))
    yield eng.write_back(bb.recv_node, st, nv, sink), eng.lift(None)


def m_set_difference(eng, bb, args, kw, st, sink, n):
    recv = bb.recv
    (o,) = args
    if not isinstance(o.ty, T.SetT):
        o = next(r_set(eng, [o], {}, st, sink, n))[1]
    yield st, V(recv.ty, z3.SetDifference(recv.z, eng.coerce(o, recv.ty, n).z))


def m_dict_get(eng, bb, args, kw, st, sink, n):
    recv = bb.recv
    t = recv.ty
    a0 = args[0]
    if isinstance(a0.ty, T.Opt) and a0.ty.elem == t.key:
        # key may be None: None is never a key of the modelled dicts (str / int keys)
        k = a0.ty.get(a0.z)
        present = z3.And(z3.Not(a0.ty.is_none(a0.z)), z3.Select(t.dom(recv.z), k))
    else:
        k = eng.coerce(a0, t.key, n).z
        present = z3.Select(t.dom(recv.z), k)
    val = V(t.val, z3.Select(t.vals(recv.z), k))
    if len(args) > 1 or "default" in kw:
        d = args[1] if len(args) > 1 else kw["default"]
        if d.ty is T.NONE or (d.ty is T.PY and d.z is None):
            ot = t.val if isinstance(t.val, T.Opt) else T.Opt(t.val)
            some = val.z if isinstance(t.val, T.Opt) else ot.some(val.z)
            yield st, V(ot, z3.If(present, some, ot.none()))
        else:
            a, b = eng.unify(val, d, n)
            if a is None:
                # different static types: fork
                if eng.feasible(st, present):
                    yield st.assume(present), val
                if eng.feasible(st, z3.Not(present)):
                    yield st.assume(z3.Not(present)), d
            else:
                yield st, V(a.ty, z3.If(present, a.z, b.z))
    else:
        ot = t.val if isinstance(t.val, T.Opt) else T.Opt(t.val)
        some = val.z if isinstance(t.val, T.Opt) else ot.some(val.z)
        yield st, V(ot, z3.If(present, some, ot.none()))


def m_dict_items(eng, bb, args, kw, st, sink, n):
    yield st, V(ItemsT(bb.recv.ty), bb.recv.z)


def m_dict_values(eng, bb, args, kw, st, sink, n):
    yield st, V(ValuesT(bb.recv.ty), bb.recv.z)


def m_dict_keys(eng, bb, args, kw, st, sink, n):
    t = bb.recv.ty
    yield st, V(T.SetT(t.key), t.dom(bb.recv.z))


def m_dict_update(eng, bb, args, kw, st, sink, n):
    recv = bb.recv
    t = recv.ty
    (o,) = args
    o = eng.coerce(o, T.DictT(t.key, t.val), n) if not isinstance(o.ty, T.DictT) else o
    if not (o.ty.key == t.key and o.ty.val == t.val):
        raise Unsupported("dict.update with a differently typed dict", n)
    k = t.key.fresh("k")
    od, ov = t.dom(o.z), t.vals(o.z)
    nd = z3.SetUnion(t.dom(recv.z), od)
    nvals = z3.Lambda([k], z3.If(z3.Select(od, k), z3.Select(ov, k), z3.Select(t.vals(recv.z), k)))
    nv = V(t, t.mk(nd, nvals))
    yield eng.write_back(bb.recv_node, st, nv, sink), eng.lift(None)


def m_dict_pop(eng, bb, args, kw, st, sink, n):
    recv = bb.recv
    t = recv.ty
    k = eng.coerce(args[0], t.key, n).z
    present = z3.Select(t.dom(recv.z), k)
    nv = V(t, t.mk(z3.Store(t.dom(recv.z), k, False), t.vals(recv.z)))
    val = V(t.val, z3.Select(t.vals(recv.z), k))
    if len(args) > 1:
        d = args[1]
        if eng.feasible(st, present):
            yield eng.write_back(bb.recv_node, st.assume(present), nv, sink), val
        if eng.feasible(st, z3.Not(present)):
            yield st.assume(z3.Not(present)), d
    else:
        if eng.feasible(st, z3.Not(present)):
            sink.append((st.assume(z3.Not(present)), Exc(KeyError)))
        yield eng.write_back(bb.recv_node, st.assume(present), nv, sink), val


# strings
def m_str_startswith(eng, bb, args, kw, st, sink, n):
    yield st, V(T.BOOL, z3.PrefixOf(eng.coerce(args[0], T.STR, n).z, bb.recv.z))


def m_str_endswith(eng, bb, args, kw, st, sink, n):
    yield st, V(T.BOOL, z3.SuffixOf(eng.coerce(args[0], T.STR, n).z, bb.recv.z))


def m_str_format(eng, bb, args, kw, st, sink, n):
    import string
    fmt = bb.recv
    if not z3.is_string_value(fmt.z):
        raise Unsupported("format on a non-literal string", n)
    parts, auto = [], 0
    for lit, field, spec, conv in string.Formatter().parse(fmt.z.as_string()):
        if lit:
            parts.append(z3.StringVal(lit))
        if field is None:
            continue
        if spec or conv:
            raise Unsupported("format spec / conversion in str.format", n)
        if field == "":
            v = args[auto]
            auto += 1
        elif field.isdigit():
            v = args[int(field)]
        elif field in kw:
            v = kw[field]
        else:
            raise Unsupported(f"format field {field!r}", n)
        parts.append(eng.to_str(v, n).z)
    yield st, V(T.STR, eng.concat(parts))


class NoopCtx:
    """context manager without effect on the verified state (timer)"""

    def enter(self, eng, cm, st, s):
        yield Outcome("next", st, cm)

    def exit(self, eng, cm, o, s):
        yield o


def install(eng):
    import builtins
    import functools as ft
    import logging
    eng.isinstance_hooks = {}
    eng.empty_hooks = {}
    eng.hasattr_hooks = {}
    eng.hasattr_obj = {}
    eng.after_mutation = lambda st, bb, what, args, nv: st
    R = eng.rules
    R[len] = r_len
    R[isinstance] = r_isinstance
    R[hasattr] = r_hasattr
    R[getattr] = r_getattr
    R[sorted] = r_sorted
    R[list] = r_list
    R[set] = r_set
    R[dict] = r_dict
    R[tuple] = r_tuple
    R[max] = _extreme("max")
    R[min] = _extreme("min")
    R[float] = r_float
    R[str] = r_str
    R[bool] = r_bool
    R[range] = r_range
    R[enumerate] = r_enumerate
    R[ft.partial] = r_partial
    R[filter] = r_filter
    R[next] = r_next
    import collections
    R[collections.defaultdict] = r_defaultdict
    try:
        import gwf.utils as gu
        R[gu.timer] = lambda eng, args, kw, st, sink, n: iter([(st, V(T.PY, ("timer",)))])
        eng.ctx_hooks["timer"] = NoopCtx()
    except ImportError:
        pass
    M = eng.method_rules
    M[(T.ListV, "append")] = m_append
    M[(T.ListT, "append")] = m_append
    M[(T.SetT, "add")] = m_add
    M[(T.SetT, "difference")] = m_set_difference
    M[(T.DictT, "get")] = m_dict_get
    M[(T.DictT, "items")] = m_dict_items
    M[(T.DictT, "values")] = m_dict_values
    M[(T.DictT, "keys")] = m_dict_keys
    M[(T.DictT, "update")] = m_dict_update
    M[(T.DictT, "pop")] = m_dict_pop
    M[("Str", "startswith")] = m_str_startswith
    M[("Str", "endswith")] = m_str_endswith
    M[("Str", "format")] = m_str_format

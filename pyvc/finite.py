"""Bounded-universe refutation: when the solver answers `unknown` on an obligation, look for a
counter-model in which every uninterpreted sort has at most k elements. Under the bound axiom
(forall x:S. x = c1 or ... or x = ck) quantifiers and lambdas over S are expanded exactly, so a model
of the expansion is a genuine model of the original formula (a real counterexample); `unsat` of the
expansion says nothing about the unbounded obligation and is never used as a proof."""
import itertools
import z3

DEBUG = False


def uninterpreted_sorts(exprs):
    seen, out = set(), {}

    def walk(e):
        if e.get_id() in seen:
            return
        seen.add(e.get_id())
        if z3.is_quantifier(e):
            for i in range(e.num_vars()):
                s = e.var_sort(i)
                if s.kind() == z3.Z3_UNINTERPRETED_SORT:
                    out[s.name()] = s
            walk(e.body())
            return
        s = e.sort()
        if s.kind() == z3.Z3_UNINTERPRETED_SORT:
            out[s.name()] = s
        if s.kind() == z3.Z3_ARRAY_SORT:
            for ss in (s.domain(), s.range()):
                if ss.kind() == z3.Z3_UNINTERPRETED_SORT:
                    out[ss.name()] = ss
        if z3.is_app(e):
            for ch in e.children():
                walk(ch)

    for e in exprs:
        walk(e)
    return out


class Expander:
    def __init__(self, consts):
        self.consts = consts  # sort name -> list of constants
        self.memo = {}

    def bounded(self, s):
        return s.kind() == z3.Z3_UNINTERPRETED_SORT and s.name() in self.consts

    def expand(self, e):
        key = e.get_id()
        if key in self.memo:
            return self.memo[key][1]
        r = self._expand(e)
        self.memo[key] = (e, r)  # keep e alive: z3 reuses ast ids of collected terms
        return r

    def _expand(self, e):
        if z3.is_quantifier(e):
            n = e.num_vars()
            sorts = [e.var_sort(i) for i in range(n)]
            if all(self.bounded(s) for s in sorts):
                body = e.body()
                pools = [self.consts[s.name()] for s in sorts]
                if e.is_lambda():
                    if n != 1:
                        return e
                    rng = body.sort()
                    arr = None
                    for c in pools[0]:
                        val = self.expand(z3.substitute_vars(body, c))
                        arr = z3.K(sorts[0], val) if arr is None else z3.Store(arr, c, val)
                    return arr
                insts = []
                for combo in itertools.product(*pools):
                    # de Bruijn: Var(0) is the LAST bound variable
                    insts.append(self.expand(z3.substitute_vars(body, *reversed(combo))))
                return z3.And(*insts) if e.is_forall() else z3.Or(*insts)
            # mixed / unbounded binder: expand inside only
            return e
        if z3.is_app(e) and e.num_args() > 0:
            ch = [self.expand(c) for c in e.children()]
            if all(a.eq(b) for a, b in zip(ch, e.children())):
                return e
            try:
                return e.decl()(*ch)
            except z3.Z3Exception:
                pairs = [(a, b) for a, b in zip(e.children(), ch) if not a.eq(b)]
                for a, b in pairs:
                    if not a.sort().eq(b.sort()):
                        raise RuntimeError(f"sort changed {a.sort()} -> {b.sort()}: {str(a)[:300]} ==> {str(b)[:300]}")
                return z3.substitute(e, *pairs)
        return e


def bounded_refute(axioms, pc, goal, ks=(1, 2, 3), timeout_ms=8000):
    """-> (model, k) of axioms ∧ pc ∧ ¬goal within a k-bounded universe, or (None, None)"""
    base = list(axioms) + list(pc) + [z3.Not(goal)]
    sorts = uninterpreted_sorts(base)
    for k in ks:
        consts = {nm: [z3.Const(f"u!{nm}!{i}", s) for i in range(k)] for nm, s in sorts.items()}
        ex = Expander(consts)
        s = z3.Solver()
        s.set("timeout", timeout_ms)
        for f in base:
            s.add(ex.expand(f))
        for nm, so in sorts.items():
            x = z3.Const("x!" + nm, so)
            s.add(z3.ForAll([x], z3.Or(*[x == c for c in consts[nm]])))
        r = s.check()
        if DEBUG:
            print("bounded", k, r, s.reason_unknown() if r == z3.unknown else "")
        if r == z3.sat:
            return s.model(), k
    return None, None

"""pyvc reporting: triage of obligation results, known findings, replay files, evidence."""
import json
import os
import re
import time

ROOT = os.path.dirname(os.path.dirname(os.path.abspath(__file__)))


def stable_id(oid):
    return re.sub(r"@L\d+$", "", oid)


def load_known():
    p = os.path.join(ROOT, "known_findings.json")
    if not os.path.exists(p):
        return {"findings": [], "fixed": []}
    with open(p) as f:
        return json.load(f)


def match_known(known, prop, rec):
    """a failing obligation is a known finding only if property, obligation and (when the
    entry gives one) the witness class match: any other failure is still reported"""
    sid = stable_id(rec["oid"])
    for k in known.get("findings", []):
        if k["property"] != prop or k["obligation"] != sid:
            continue
        wc = k.get("witness_class")
        if wc:
            got = (rec.get("replay") or {}).get("witness_class")
            if got != wc:
                continue
        return k
    return None


def finish(eng, prop, args, seed, results, wall, enum_results=()):
    from .front import DROPPED
    known = load_known()
    # a bounded enumerator that found a failing input on the real code decides the undecided obligations of
    # the functions in its scope (and is a violation in its own right if everything had been discharged)
    found = [e for e in enum_results if (e["result"] or {}).get("failed_on_real_code")]
    enum_errors = [f"enumerator {e['name']}: {e['result'].get('error')}" for e in enum_results
                   if (e["result"] or {}).get("error")]
    for r in results:
        for ob in r.get("obligations", []):
            if ob["expect"] == "unsat" and ob["status"] != "unsat" and not (ob.get("replay") or {}).get("failed_on_real_code"):
                for e in found:
                    if ob["fn"] in e["scope"]:
                        ob["replay"] = dict(e["result"], enumerator=e["name"])
                        break
    obligations = discharged = 0
    by_kind, by_backend = {}, {}
    solver_s = 0.0
    violations, undecided, errors, vacuous = [], [], [], []
    functions, samples, trusted = [], [], set()
    covers = covers_ok = 0
    inconclusive = []
    for r in results:
        if r.get("error"):
            errors.append(f"{r['key']}: {r['error']}")
            if args.verbose:
                print(r.get("trace"))
            continue
        if r.get("unsupported"):
            undecided.append({"oid": r["key"], "why": "unsupported: " + r["unsupported"]})
            continue
        info = r["info"]
        functions.append({k: info[k] for k in ("key", "file", "lines", "sha256", "paths", "contract") if k in info})
        functions[-1].update(worker_wall_s=r.get("wall"), prune_mode=r.get("prune_mode", "shared"))
        for callee in info.get("calls", []):
            c = eng.contracts.get(callee)
            if c is not None and c.trusted:
                trusted.add(callee)
        for ob in r["obligations"]:
            solver_s += ob["time"]
            if ob["expect"] == "sat":
                covers += 1
                if ob["status"] == "sat":
                    covers_ok += 1
                elif ob["status"] == "inconclusive":
                    inconclusive.append(ob["oid"])
                elif ob["status"] == "unsat":
                    vacuous.append(ob["oid"])
                else:
                    # satisfiability of a quantified precondition could not be decided either way: reported,
                    # not fatal (only a precondition that is definitely unsatisfiable is a vacuity error)
                    inconclusive.append(ob["oid"])
                continue
            obligations += 1
            by_kind[ob["kind"]] = by_kind.get(ob["kind"], 0) + 1
            if ob["status"] == "unsat":
                discharged += 1
                by_backend[ob["backend"]] = by_backend.get(ob["backend"], 0) + 1
            elif ob["status"] == "sat":
                violations.append(ob)
            elif (ob.get("replay") or {}).get("failed_on_real_code"):
                # solver undecided, but the enumerative stand-in found a failing input on the real code
                violations.append(ob)
            else:
                undecided.append({"oid": ob["oid"], "why": f"solver: {ob['status']} {ob.get('reason', '')}"})
            if "smt_head" in ob and len(samples) < 4:
                samples.append({"obligation": ob["oid"], "kind": ob["kind"], "status": ob["status"],
                                "spec": ob["note"], "smtlib_head": ob["smt_head"]})
    attached = {(o.get("replay") or {}).get("enumerator") for o in violations}
    for e in found:
        if e["name"] not in attached:
            # every obligation in scope was discharged, yet the real code fails the property's oracle on a small
            # input: reported as a violation of the property (it also means a contract is too weak: DESIGN 2.8)
            violations.append({"oid": f"enumerator:{e['name']}:oracle", "kind": "bounded-cross-check", "note": "",
                               "fn": e["name"], "backend": "cpython", "status": "failing-input",
                               "replay": dict(e["result"], enumerator=e["name"])})
    # ---- triage of failing obligations
    new_violations, known_hits = [], []
    seen_ids = set()
    for ob in violations:
        k = match_known(known, prop, ob)
        if k is not None:
            known_hits.append((k, ob))
            continue
        rp = ob.get("replay") or {}
        if rp.get("contradicts_encoding"):
            errors.append(f"{ob['oid']}: replay contradicts the encoding: {rp.get('detail')}")
            continue
        new_violations.append(ob)
    errors.extend(enum_errors)
    rc = 0
    printed = set()
    for k, ob in known_hits:
        line = f"KNOWN-FINDING: property={prop} {k['what']}"
        if line not in printed:
            print(line)
            printed.add(line)
    os.makedirs(os.path.join(ROOT, "replays", prop), exist_ok=True)
    for ob in new_violations:
        sid = stable_id(ob["oid"])
        if sid in seen_ids:
            continue
        seen_ids.add(sid)
        fname = re.sub(r"[^A-Za-z0-9_.#-]+", "_", sid)[:150] + ".json"
        path = os.path.join(ROOT, "replays", prop, fname)
        rp = ob.get("replay")
        doc = {"property": prop, "obligation": ob["oid"], "kind": ob["kind"], "spec_clause": ob["note"],
               "function": ob["fn"], "solver": ob["backend"], "solver_status": ob["status"],
               "solver_model": ob.get("model"), "replay": rp, "src_root": args.src,
               "rerun": f"cd {ROOT} && ./check {prop} --tier {args.tier}"}
        with open(path, "w") as f:
            json.dump(doc, f, indent=1, default=str)
        tail = ""
        if not (rp and rp.get("failed_on_real_code")):
            tail = " no-failing-input-found"
        print(f"VIOLATION property={prop} replay={path} obligation={sid}{tail}")
        rc = 1
    if rc == 0 and undecided:
        for u in undecided[:20]:
            print(f"UNDECIDED property={prop} {u['oid']} ({u['why']})")
        rc = 2
    if rc == 0 and (errors or vacuous):
        rc = 3
    for k, fb in sorted(getattr(args, "worker_fallbacks", {}).items()):
        print(f"NOTE property={prop} {k}: verified again with path pruning mode '{fb['mode']}' after {fb['after']}")
    for e in errors:
        print(f"CHECKER-ERROR property={prop} {e}")
    for v in vacuous:
        print(f"CHECKER-ERROR property={prop} vacuous: cover {v} is unsatisfiable")
    if obligations == 0 and rc == 0:
        print(f"CHECKER-ERROR property={prop} zero obligations generated")
        rc = 3
    all_proved = (discharged == obligations and not undecided and not errors and not vacuous)
    bounded = getattr(eng, "bounded_notes", {}).get(prop, []) + [
        {"name": e["name"], "role": "deciding bounded stand-in for a clause without a deductive contract"}
        for e in enum_results if any(x["name"] == e["name"] and x.get("always") for x in eng.enumerators)]
    level = "proof" if all_proved and not bounded and not known_hits else "other"
    assumptions = sorted(set(getattr(eng, "assumptions", {}).get(prop, []) + getattr(eng, "assumptions", {}).get("*", [])))
    ev = {
        "property_id": prop, "tier": args.tier, "seed": seed, "level": level,
        "coverage": {
            "obligations": obligations, "discharged": discharged,
            "checker_cmd": f"./check {prop} --tier {args.tier}",
            "trusted_base": sorted(trusted) + ["z3 %s" % next(iter(by_backend), "z3"),
                                               "pyvc encoding of CPython semantics for the subset in DESIGN.md 2.2"],
            "functions_under_contract": functions,
            "obligations_by_kind": by_kind, "discharged_by_backend": by_backend,
            "solver_time_s": round(solver_s, 3),
            "covers": covers, "covers_satisfiable": covers_ok, "covers_inconclusive": inconclusive,
            "undecided": undecided[:50], "failing": [stable_id(o["oid"]) for o in violations],
            "known_findings_hit": sorted({k["id"] for k, _ in known_hits}),
            "bounded_stand_ins": bounded + [
                {"name": e["name"], "triggered_by": e["triggered_by"], "wall_s": e["wall"],
                 "found_failing_input": bool((e["result"] or {}).get("failed_on_real_code")),
                 "candidates_tried": (e["result"] or {}).get("candidates_tried"), "bound": (e["result"] or {}).get("bound"),
                 "role": "refuter / CPython cross-check only; never counted as proof"} for e in enum_results],
            "dropped_by_front_end": DROPPED,
            "samples": samples,
            "explanation": ("every obligation generated from the current source was discharged"
                            if level == "proof" else
                            "not a complete proof on this run: see failing / undecided / known findings / bounded stand-ins"),
            "src_root": args.src,
            # contracts whose first worker process died inside libz3 and that were verified again, from scratch, with
            # another path-pruning mode (pyvc/run.py PRUNE_MODES); empty on most runs
            "worker_fallbacks": getattr(args, "worker_fallbacks", {}),
        },
        "assumptions": assumptions,
        "wall_s": round(wall, 3),
        "violations": len(seen_ids),
    }
    if not args.no_evidence:
        os.makedirs(os.path.join(ROOT, "evidence"), exist_ok=True)
        with open(os.path.join(ROOT, "evidence", f"{prop}.json"), "w") as f:
            json.dump(ev, f, indent=1)
    print(f"{prop}: functions={len(functions)} obligations={obligations} discharged={discharged} "
          f"failing={len(violations)} known={len(known_hits)} undecided={len(undecided)} covers={covers_ok}/{covers} "
          f"solver={solver_s:.2f}s wall={wall:.1f}s exit={rc}")
    return rc

"""pyvc front end: the verified text is the AST of the function as it stands in the source
root at check time (default /repo/src). Nothing is translated; what is dropped is listed."""
import ast
import hashlib
import importlib
import os
import sys

DROPPED = [
    "docstrings and type annotations",
    "logger.debug/info/warning/error calls (treated as no-ops)",
    "decorators: attrs.define/frozen/field machinery, click.command/option/argument, pass_context, "
    "with_plugins, timer(...), classmethod/property/staticmethod, wraps "
    "(lru_cache is NOT dropped: it is given memoisation semantics)",
    "text of exception messages (the exception class is kept)",
]


class Front:
    def __init__(self, src_root):
        self.src_root = os.path.abspath(src_root)
        if sys.path[0] != self.src_root:
            sys.path.insert(0, self.src_root)
        self._trees = {}
        self._mods = {}

    def module_path(self, modname):
        p = os.path.join(self.src_root, *modname.split("."))
        if os.path.isdir(p):
            return os.path.join(p, "__init__.py")
        return p + ".py"

    def tree(self, modname):
        if modname not in self._trees:
            path = self.module_path(modname)
            with open(path) as f:
                src = f.read()
            self._trees[modname] = (ast.parse(src, filename=path), src, path)
        return self._trees[modname]

    def module(self, modname):
        if modname not in self._mods:
            m = importlib.import_module(modname)
            f = getattr(m, "__file__", "") or ""
            if not os.path.abspath(f).startswith(self.src_root + os.sep):
                raise RuntimeError(f"module {modname} was imported from {f}, not from the source root {self.src_root}")
            self._mods[modname] = m
        return self._mods[modname]

    def module_globals(self, key):
        modname = key.split(":")[0]
        if modname in ("iface", "ext", "lemma"):
            return {}
        return vars(self.module(modname))

    def find(self, key, missing_ok=False):
        """key = 'pkg.mod:Qual.name' -> FunctionDef/AsyncFunctionDef node"""
        modname, _, qual = key.partition(":")
        if modname in ("iface", "ext", "lemma"):
            if missing_ok:
                return None
            raise KeyError(key)
        try:
            tree, src, path = self.tree(modname)
        except FileNotFoundError:
            if missing_ok:
                return None
            raise
        node = tree
        for part in qual.split("."):
            found = None
            body = getattr(node, "body", [])
            stack = list(body)
            # nested defs may sit inside with/if/try blocks of the enclosing function
            while stack:
                x = stack.pop(0)
                if isinstance(x, (ast.FunctionDef, ast.AsyncFunctionDef, ast.ClassDef)):
                    if x.name == part and found is None:
                        found = x
                    continue
                for fld in ("body", "orelse", "finalbody", "handlers"):
                    stack.extend(getattr(x, fld, []) or [])
            if found is None:
                if missing_ok:
                    return None
                raise KeyError(f"{key}: {part} not found in {path}")
            node = found
        return node

    def info(self, key):
        modname = key.partition(":")[0]
        node = self.find(key)
        tree, src, path = self.tree(modname)
        seg = ast.get_source_segment(src, node) or ""
        return {
            "key": key,
            "file": os.path.relpath(path, os.path.dirname(self.src_root)),
            "lines": [node.lineno, node.end_lineno],
            "sha256": hashlib.sha256(seg.encode()).hexdigest(),
            "is_async": isinstance(node, ast.AsyncFunctionDef),
        }


def strip_docstring(body):
    if body and isinstance(body[0], ast.Expr) and isinstance(body[0].value, ast.Constant) and isinstance(
            body[0].value.value, str):
        return body[1:]
    return body


def loops_in_order(fn_node):
    """loops of a function in source order, not descending into nested defs: ordinal -> node"""
    out = []

    def walk(stmts):
        for s in stmts:
            if isinstance(s, (ast.FunctionDef, ast.AsyncFunctionDef, ast.ClassDef)):
                continue
            if isinstance(s, (ast.For, ast.While, ast.AsyncFor)):
                out.append(s)
            for fld in ("body", "orelse", "finalbody"):
                walk(getattr(s, fld, []) or [])
            for h in getattr(s, "handlers", []) or []:
                walk(h.body)

    walk(fn_node.body)
    return out

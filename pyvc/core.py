"""pyvc core data structures: values, states, outcomes, obligations, contracts."""
import ast
import z3
from . import ty as T


class Unsupported(Exception):
    """the function uses something outside the verified subset: never silently skipped"""

    def __init__(self, msg, node=None):
        self.node = node
        line = getattr(node, "lineno", None)
        super().__init__(f"{msg}" + (f" at L{line}" if line else ""))


class SpecError(Exception):
    """a sidecar contract is malformed (checker error, exit 3)"""


class V:
    """a symbolic value: static type + z3 term (or a Python payload for FUN / PY / EXC)"""
    __slots__ = ("ty", "z", "aux")

    def __init__(self, ty, z, aux=None):
        self.ty, self.z, self.aux = ty, z, aux

    def __repr__(self):
        return f"V({self.ty},{self.z})"


class ExcT(T.Ty):
    name = "Exc"


EXC = ExcT()


class Exc:
    """a raised exception: real Python class (resolved in the module under check), optional message"""

    def __init__(self, cls, args=(), exact=True, cause=None):
        self.cls, self.args, self.exact, self.cause = cls, args, exact, cause

    def __repr__(self):
        return f"Exc({self.cls.__name__})"


class FunV:
    """Python-level callable value"""

    def __init__(self, kind, **kw):
        self.kind = kind  # 'contract' | 'lambda' | 'method' | 'pyfunc' | 'partial'
        self.__dict__.update(kw)

    def __repr__(self):
        return f"FunV({self.kind},{self.__dict__.get('key') or self.__dict__.get('name')})"


class State:
    """path state. Functional: every update returns a new State."""
    __slots__ = ("env", "heap", "ghost", "pc", "old", "mode", "cur_exc", "binder", "meta")

    def __init__(self, env=None, heap=None, ghost=None, pc=(), old=None, mode="code", cur_exc=None, binder=0,
                 meta=None):
        self.env = env or {}
        self.heap = heap or {}
        self.ghost = ghost or {}
        self.pc = pc
        self.old = old
        self.mode = mode
        self.cur_exc = cur_exc
        self.binder = binder
        self.meta = meta or {}

    def clone(self, **kw):
        s = State(self.env, self.heap, self.ghost, self.pc, self.old, self.mode, self.cur_exc, self.binder, self.meta)
        for k, v in kw.items():
            setattr(s, k, v)
        return s

    def assume(self, *zs):
        zs = tuple(z for z in zs if z is not None and not z3.is_true(z))
        return self.clone(pc=self.pc + zs) if zs else self

    def set_var(self, name, v):
        e = dict(self.env)
        e[name] = v
        return self.clone(env=e)

    def set_heap(self, key, z):
        h = dict(self.heap)
        h[key] = z
        return self.clone(heap=h)

    def set_ghost(self, name, v):
        g = dict(self.ghost)
        g[name] = v
        return self.clone(ghost=g)

    def set_meta(self, k, v):
        m = dict(self.meta)
        m[k] = v
        return self.clone(meta=m)


class Outcome:
    __slots__ = ("kind", "st", "val")

    def __init__(self, kind, st, val=None):
        self.kind, self.st, self.val = kind, st, val  # kind: next|return|raise|break|continue

    def __repr__(self):
        return f"Outcome({self.kind},{self.val})"


class Obligation:
    def __init__(self, oid, kind, label, line, pc, goal, fn_key, serves=(), expect="unsat", note=""):
        self.oid, self.kind, self.label, self.line = oid, kind, label, line
        self.pc, self.goal, self.fn_key = pc, goal, fn_key
        self.serves = tuple(serves)
        self.expect = expect  # 'unsat' (normal) | 'sat' (cover / canary: must be satisfiable)
        self.note = note
        self.result = None  # filled by solver: dict(status=..., time=..., backend=..., model=...)


class Loop:
    def __init__(self, inv=(), seen=None, it=None, modifies=None, decreases=None, serves=None, order=None):
        self.inv = list(inv)
        self.seen = seen  # ghost name of the processed-elements set (for-each)
        self.it = it  # ghost name of the position / next range value (indexed loops)
        self.modifies = modifies
        self.decreases = decreases
        self.serves = serves
        self.order = order


class ClassDecl:
    """static description of a class whose instances appear in verified code"""

    def __init__(self, name, fields=None, consts=None, bases=(), methods=None, pyname=None, root=None):
        self.name = name
        self.root = root or name
        self.fields = fields or {}  # mutable fields: name -> Ty (live in the heap)
        self.consts = consts or {}  # immutable attributes: name -> Ty (uninterpreted functions of the object)
        self.bases = tuple(bases)
        self.methods = methods or {}  # method name -> contract key (overrides default lookup)
        self.pyname = pyname  # "module:Qualname" of the real class, when there is one


class Contract:
    def __init__(self, key, params=None, returns=None, requires=(), ensures=(), raises=None, modifies=(),
                 locals=None, loops=None, decreases=None, serves=(), captures=None, trusted=False,
                 returns_expr=None, self_type=None, note="", rec_group=None, memo=None, ghost_locals=None,
                 is_async=False, awaits=None, body_of=None, pure=False, on_exc_modifies=None, kwonly=(),
                 cancellable=False, entry_assume=(), exc_ensures=None):
        self.key = key
        self.params = params or {}  # ordered: name -> Ty
        self.returns = returns
        self.requires = list(requires)
        self.ensures = list(ensures)
        self.raises = raises or {}  # exception class name -> condition (spec str) | dict(cond=, ensures=[...])
        self.modifies = list(modifies)
        self.locals = locals or {}
        self.loops = loops or {}
        self.decreases = decreases
        self.serves = tuple(serves)
        self.captures = captures or {}
        self.trusted = trusted
        self.returns_expr = returns_expr
        self.self_type = self_type
        self.note = note
        self.rec_group = rec_group
        self.memo = memo  # ghost set name for lru_cache-memoised closures
        self.ghost_locals = ghost_locals or {}
        self.is_async = is_async
        self.awaits = awaits
        self.body_of = body_of  # verify the body of another key against this contract (interface checks)
        self.pure = pure
        self.on_exc_modifies = on_exc_modifies
        self.kwonly = kwonly
        self.cancellable = cancellable
        self.entry_assume = list(entry_assume)
        self.exc_ensures = list(exc_ensures or [])  # must hold on EVERY exceptional exit


def lineno(node):
    return getattr(node, "lineno", 0)


def parse_spec(s):
    if isinstance(s, ast.AST):
        return s
    try:
        return ast.parse(s.strip(), mode="eval").body
    except SyntaxError as e:
        raise SpecError(f"cannot parse spec expression {s!r}: {e}")

"""pyvc runner: selects the contracts of a property (plus the assume-guarantee closure),
verifies them in a process pool, triages results, replays counterexamples, writes evidence.

exit codes: 0 held / 1 VIOLATION / 2 undecided (unknown, timeout, unsupported) / 3 checker error
"""
import argparse
import hashlib
import json
import multiprocessing as mp
import os
import re
import subprocess
import sys
import tempfile
import time
import traceback

ROOT = os.path.dirname(os.path.dirname(os.path.abspath(__file__)))
# how Engine.feasible asks z3 whether a path is dead: one incremental solver with push/pop / a new solver object per
# query / a new solver object behind z3's tactic front end. Tried in this order when a worker process dies.
PRUNE_MODES = ["shared", "fresh", "fresh-tactic"]
_ENG = None
_SRC = None


def get_engine(src):
    global _ENG, _SRC
    if _ENG is None or _SRC != src:
        sys.path.insert(0, ROOT)
        from pyvc.engine import Engine
        import contracts
        _ENG = Engine(src)
        contracts.install_all(_ENG)
        _SRC = src
    return _ENG


def cvc5_check(smt2, timeout_s):
    """second back end: the cvc5 binary on the SMT-LIB text produced by z3. Only `unsat` and
    `sat` answers are used; parse errors or anything else count as unknown."""
    with tempfile.NamedTemporaryFile("w", suffix=".smt2", delete=False, dir=os.path.join(ROOT, "replays", ".work")) as f:
        f.write("(set-logic ALL)\n" + smt2)
        path = f.name
    try:
        out = subprocess.run(["/usr/bin/cvc5", "--strings-exp", f"--tlimit={int(timeout_s * 1000)}", path],
                             capture_output=True, text=True, timeout=timeout_s + 5)
        ans = out.stdout.strip().splitlines()
        return ans[0] if ans and ans[0] in ("sat", "unsat") else "unknown"
    except Exception:
        return "unknown"
    finally:
        os.unlink(path)


def work(args):
    """verify one contract (or lemma) in a worker process; returns plain data"""
    key, src, tier, seed = args
    shard = None
    if "#" in key:      # "contract key#i/n": this worker solves every n-th obligation starting at i
        key, sh = key.rsplit("#", 1)
        shard = tuple(int(x) for x in sh.split("/"))
    t0 = time.time()
    out = {"key": key, "obligations": [], "info": None, "error": None, "unsupported": None}
    try:
        import z3
        eng = get_engine(src)
        from pyvc.core import Unsupported, SpecError
        timeout = 20000 if tier == "quick" else 120000
        try:
            if key.startswith("lemma:"):
                obs, info = eng.verify_lemma(key[6:])
                c = type("L", (), {"uses": eng.lemmas[key[6:]].get("uses", ()), "key": key})()
            else:
                c = eng.contracts[key]
                obs, info = eng.verify(c)
        except Unsupported as e:
            out["unsupported"] = str(e)
            out["trace"] = traceback.format_exc()
            return out
        out["info"] = info
        out["dropped"] = sorted(eng.dropped)
        replayed = {}
        out["oids_digest"] = hashlib.sha1("\n".join(f"{ob.oid}|{ob.kind}|{ob.expect}" for ob in obs).encode()).hexdigest()
        for oi, ob in enumerate(obs):
            if shard is not None and oi % shard[1] != shard[0]:
                continue
            if ob.kind == "cover-any":
                st, tt = "unsat", 0.0
                for pc in ob.alts:
                    ob.pc = pc
                    r = eng.solve(ob, c, 2000)
                    tt += r["time"]
                    if r["status"] == "sat":
                        st = "sat"
                        break
                    if r["status"] == "unknown":
                        st = "inconclusive"
                r = {"status": st, "time": tt, "backend": r["backend"] if ob.alts else "z3"}
            else:
                r = eng.solve(ob, c, timeout)
            rec = {"oid": ob.oid, "kind": ob.kind, "label": ob.label, "line": ob.line, "expect": ob.expect,
                   "status": r["status"], "time": r["time"], "backend": r["backend"], "note": ob.note,
                   "serves": list(ob.serves), "fn": ob.fn_key}
            if r["status"] == "unknown" and ob.expect == "unsat" and r.get("smt2"):
                os.makedirs(os.path.join(ROOT, "replays", ".work"), exist_ok=True)
                ans = cvc5_check(r["smt2"], 10 if tier == "quick" else 60)
                if ans in ("sat", "unsat"):
                    rec["status"], rec["backend"] = ans, "cvc5-1.0.3(cli)"
                rec["reason"] = r.get("reason")
            if tier == "thorough" and r["status"] == "unsat" and ob.expect == "unsat" and ob.kind != "cover-any":
                rec["cross"] = "skipped"
            if rec["status"] in ("sat", "unknown") and ob.expect == "unsat" and ob.kind != "cover-any":
                m = r.get("model") if rec["status"] == "sat" else None
                rec["model"] = str(m)[:6000] if m is not None else None
                rp = eng.replayers.get(key) if hasattr(eng, "replayers") else None
                if rp is not None and key in replayed and m is None:
                    rec["replay"] = replayed[key]
                elif rp is not None:
                    try:
                        rec["replay"] = rp(eng, ob, m, seed)
                        replayed.setdefault(key, rec["replay"])
                    except Exception as e:  # a crashing realiser must not hide the failed obligation
                        rec["replay"] = {"error": f"{type(e).__name__}: {e}", "trace": traceback.format_exc()[-1500:]}
            if len(out["obligations"]) < 3 and ob.kind != "cover-any":
                s = z3.Solver()
                s.add(*ob.pc)
                s.add(z3.Not(ob.goal))
                rec["smt_head"] = s.to_smt2()[:700]
            out["obligations"].append(rec)
    except Exception as e:
        out["error"] = f"{type(e).__name__}: {e}"
        out["trace"] = traceback.format_exc()
    out["wall"] = round(time.time() - t0, 3)
    return out


def stable_id(oid):
    """obligation id without the line number (survives edits above the function)"""
    return re.sub(r"@L\d+$", "", oid)


def main(argv=None):
    ap = argparse.ArgumentParser()
    ap.add_argument("prop")
    ap.add_argument("--tier", default=os.environ.get("VERIF_TIER", "quick"), choices=["quick", "thorough"])
    ap.add_argument("--src", default=os.environ.get("GWF_VERIF_SRC", "/repo/src"))
    ap.add_argument("--jobs", type=int, default=min(16, os.cpu_count() or 4))
    ap.add_argument("--no-evidence", action="store_true")
    ap.add_argument("--verbose", "-v", action="store_true")
    a = ap.parse_args(argv)
    seed = int(os.environ.get("VERIF_SEED", "0") or 0)
    os.environ["VERIF_TIER"] = a.tier          # the bounded enumerators widen their bounds in the thorough tier
    t0 = time.time()
    prop = a.prop
    os.makedirs(os.path.join(ROOT, "replays", ".work"), exist_ok=True)
    try:
        eng = get_engine(a.src)
    except Exception:
        traceback.print_exc()
        print(f"CHECKER-ERROR property={prop} could not load engine/contracts")
        return 3
    from pyvc import report
    todo = [k for k, c in eng.contracts.items() if prop in c.serves and not c.trusted]
    todo += ["lemma:" + k for k, l in eng.lemmas.items() if prop in l["serves"]]
    if os.environ.get("PYVC_ONLY"):     # debugging aid: verify only the named contracts (never used by ./check)
        todo = [k for k in todo if k in os.environ["PYVC_ONLY"].split(",")] or os.environ["PYVC_ONLY"].split(",")
    done, results = set(), []
    ctx = mp.get_context("fork")
    task_wall = 1500 if a.tier == "quick" else 3600   # a guard against a hung solver, not a budget: rlimit bounds every query

    def child(key, conn, prune):
        try:
            os.environ["PYVC_PRUNE"] = prune
            conn.send(work((key, a.src, a.tier, seed)))
        except BaseException as e:  # never leave the parent waiting
            conn.send({"key": key, "obligations": [], "info": None, "unsupported": None,
                       "error": f"{type(e).__name__}: {e}", "trace": traceback.format_exc()})
        finally:
            conn.close()

    running = {}   # key -> (process, parent_conn, start time)
    attempts = {}
    # A worker that dies without a result (libz3 has crashed with SIGSEGV inside the shared incremental pruning
    # solver, smt::context::pop_scope, depending on nothing but memory layout) is not a verdict about the code.
    # Its contract is verified again from scratch (every shard of it, so that all shards enumerate the same
    # obligation list) with the next pruning mode; pruning only ever removes paths z3 answers `unsat` for, so the
    # modes differ in cost, not in what is proved. Only when the last mode has died too is it a CHECKER-ERROR.
    mode_of = {}   # base contract key -> index into PRUNE_MODES
    fallbacks = {}

    def base_of(k):
        return k.rsplit("#", 1)[0] if "#" in k else k

    def expand(k):
        c = eng.contracts.get(k)
        n = getattr(c, "shards", 1) if c is not None else 1
        return [k] if n <= 1 else [f"{k}#{i}/{n}" for i in range(n)]

    queue = [x for k in dict.fromkeys(todo) for x in expand(k)]
    shard_parts = {}
    while queue or running:
        while queue and len(running) < a.jobs:
            k = queue.pop(0)
            if k in done or k in running:
                continue
            pc, cc = ctx.Pipe(duplex=False)
            pr = ctx.Process(target=child, args=(k, cc, PRUNE_MODES[mode_of.get(base_of(k), 0)]), daemon=True)
            pr.start()
            cc.close()
            attempts[k] = attempts.get(k, 0) + 1
            running[k] = (pr, pc, time.time())
        for k, (pr, pc, t1) in list(running.items()):
            if k not in running:    # killed below together with a sibling shard that died
                continue
            r = None
            if pc.poll(0.02):
                try:
                    r = pc.recv()
                except EOFError:
                    r = {"key": k, "obligations": [], "info": None, "unsupported": None,
                         "error": "worker died without a result"}
            elif not pr.is_alive():
                r = {"key": k, "obligations": [], "info": None, "unsupported": None,
                     "error": f"worker exited with code {pr.exitcode} without a result"}
            elif time.time() - t1 > task_wall:
                pr.kill()
                r = {"key": k, "obligations": [], "info": None, "error": None,
                     "unsupported": f"worker exceeded {task_wall}s wall (killed)"}
            if r is None:
                continue
            pr.join(timeout=5)
            del running[k]
            if (r.get("error") or "").startswith("worker"):
                base = base_of(k)
                if mode_of.get(base, 0) + 1 < len(PRUNE_MODES):
                    mode_of[base] = mode_of.get(base, 0) + 1
                    fallbacks[base] = {"mode": PRUNE_MODES[mode_of[base]], "after": f"{k}: {r['error']}"}
                    for k2 in [x for x in running if base_of(x) == base]:
                        running[k2][0].kill()
                        running[k2][0].join(timeout=5)
                        del running[k2]
                    shard_parts.pop(base, None)
                    done.difference_update([x for x in done if base_of(x) == base])
                    queue[:] = [x for x in queue if base_of(x) != base] + expand(base)
                    continue
            done.add(k)
            if "#" in k:
                base, sh = k.rsplit("#", 1)
                n = int(sh.split("/")[1])
                shard_parts.setdefault(base, []).append(r)
                if len(shard_parts[base]) < n:
                    continue
                parts = shard_parts.pop(base)
                r = dict(parts[0])
                r["key"] = base
                r["obligations"] = [o for p_ in parts for o in p_.get("obligations", [])]
                r["error"] = next((p_["error"] for p_ in parts if p_.get("error")), None)
                if r["error"] is None and len({p_.get("oids_digest") for p_ in parts}) != 1:
                    r["error"] = "the shards of this contract enumerated different obligation lists"
                r["unsupported"] = next((p_["unsupported"] for p_ in parts if p_.get("unsupported")), None)
                done.add(base)
            r["prune_mode"] = PRUNE_MODES[mode_of.get(base_of(r["key"]), 0)]
            results.append(r)
            # assume-guarantee closure: every callee contract that was assumed must itself be
            # discharged on this run, unless it is a trusted external
            for callee in (r.get("info") or {}).get("calls", []):
                c = eng.contracts.get(callee)
                if c is not None and not c.trusted and callee not in done and callee not in running \
                        and not any(q == callee or q.startswith(callee + "#") for q in queue) \
                        and not any(rk.startswith(callee + "#") for rk in running) and callee not in shard_parts:
                    queue.extend(expand(callee))
    enum_results = run_enumerators(eng, prop, a, seed, results, ctx)
    a.worker_fallbacks = fallbacks
    return report.finish(eng, prop, a, seed, results, time.time() - t0, enum_results)


def _enum_child(idx, src, seed, focus, conn):
    try:
        eng = get_engine(src)
        conn.send(eng.enumerators[idx]["run"](seed, focus))
    except BaseException as e:
        conn.send({"error": f"{type(e).__name__}: {e}", "trace": traceback.format_exc()[-2000:]})
    finally:
        conn.close()


def run_enumerators(eng, prop, a, seed, results, ctx):
    """bounded stand-ins: run when some obligation of a function in their scope failed or is undecided
    (quick tier), or always (thorough tier: CPython cross-check of contracts and engine). `always` ones decide a clause
    that has no deductive contract; `crosscheck` ones (cheap, deterministic) also run on every change, only to catch
    what the contracts cannot see (trusted or unmodelled code): they never count towards the level of assurance."""
    bad_fns = set()
    for r in results:
        if r.get("unsupported") or r.get("error"):
            bad_fns.add(r["key"])
        for ob in r.get("obligations", []):
            if ob["expect"] == "unsat" and ob["status"] != "unsat" and not (ob.get("replay") or {}).get("failed_on_real_code"):
                bad_fns.add(ob["fn"])
    chosen = []
    for i, en in enumerate(eng.enumerators):
        if prop not in en["props"]:
            continue
        hit = sorted(bad_fns & set(en["scope"]))
        if a.tier == "thorough" or hit or en.get("always") or en.get("crosscheck"):
            chosen.append((i, en, hit))
    procs = []
    for i, en, hit in chosen:
        pc, cc = ctx.Pipe(duplex=False)
        pr = ctx.Process(target=_enum_child, args=(i, a.src, seed, hit, cc), daemon=True)
        pr.start()
        cc.close()
        procs.append((en, hit, pr, pc, time.time()))
    out = []
    limit = 300 if a.tier == "quick" else 3600
    for en, hit, pr, pc, t1 in procs:
        res = None
        if pc.poll(max(1, limit - (time.time() - t1))):
            try:
                res = pc.recv()
            except EOFError:
                res = {"error": "enumerator died"}
        else:
            pr.kill()
            res = {"error": f"enumerator exceeded {limit}s"}
        pr.join(timeout=5)
        out.append({"name": en["name"], "scope": en["scope"], "triggered_by": hit, "result": res,
                    "wall": round(time.time() - t1, 2)})
    return out


if __name__ == "__main__":
    sys.exit(main())

"""pyvc calls: modular call rule (callee contract only), spec forms, builtin rules, await."""
import ast
import functools
import inspect
import logging
import z3
from . import ty as T
from .core import (V, Exc, EXC, FunV, State, Unsupported, SpecError, Contract, lineno, parse_spec)
from .expr import BoundBuiltin, zand, zor


class CallMixin:
    # ------------------------------------------------------------------ dispatch
    def ev_Call(self, n, st, sink):
        if any(isinstance(a, ast.Starred) for a in n.args) or any(k.arg is None for k in n.keywords):
            yield from self.call_with_unpacking(n, st, sink)
            return
        # spec forms and quantifier builtins need unevaluated arguments
        if isinstance(n.func, ast.Name):
            nm = n.func.id
            if nm in ("all", "any") and len(n.args) == 1 and isinstance(n.args[0], (ast.GeneratorExp, ast.ListComp)) \
                    and nm not in st.env:
                yield from self.quantifier(nm, n.args[0], st, sink)
                return
            if st.mode == "spec" and nm not in st.env and nm in self.SPECFORMS:
                yield from self.specform(nm, n, st, sink)
                return
        for st1, f in self.evx(n.func, st, sink):
            if f.ty is T.PY and isinstance(getattr(f.z, "__self__", None), logging.Logger):
                for sub in ast.walk(n):
                    if isinstance(sub, (ast.Await, ast.NamedExpr, ast.Yield, ast.YieldFrom)):
                        raise Unsupported("logger call with side-effecting argument", n)
                self.dropped.add("logger call")
                ev = getattr(self.current, "log_events", None) if self.current is not None else None
                if ev and n.args and isinstance(n.args[0], ast.Constant) and n.args[0].value in ev:
                    # a log line that IS the observable behaviour (e.g. "Would submit %s"): ghost event
                    for st2, vals in self.ev_list(n.args[1:], st1, sink):
                        yield ev[n.args[0].value](self, st2, vals), self.lift(None)
                    continue
                yield st1, self.lift(None)
                continue
            if f.ty is T.PY and self._hashable(f.z) and f.z in self.raw_rules:
                yield from self.raw_rules[f.z](self, n, st1, sink)
                continue
            want_args = self.arg_wants(f, n)
            for st2, args in self.ev_args(n.args, want_args, st1, sink):
                for st3, kwvals in self.ev_kwargs(f, n.keywords, st2, sink):
                    kwargs = {k.arg: v for k, v in zip(n.keywords, kwvals)}
                    self._arg_nodes = (list(n.args), {k.arg: k.value for k in n.keywords})
                    yield from self.apply(f, args, kwargs, st3, sink, n)

    @staticmethod
    def _hashable(o):
        try:
            hash(o)
            return True
        except TypeError:
            return False

    def ev_args(self, nodes, wants, st, sink):
        if not nodes:
            yield st, []
            return
        w = wants[0] if wants else None
        st0 = st.set_meta("want", w) if w is not None else st
        for st1, v in self.evx(nodes[0], st0, sink):
            st1 = st1.set_meta("want", st.meta.get("want")) if w is not None else st1
            for st2, rest in self.ev_args(nodes[1:], wants[1:] if wants else None, st1, sink):
                yield st2, [v] + rest

    def ev_kwargs(self, f, keywords, st, sink):
        """keyword arguments, each evaluated with the callee's parameter type as the expected type"""
        c = None
        if f.ty is T.FUN and isinstance(f.z, FunV) and f.z.kind == "contract":
            c = self.contracts.get(f.z.key)
        elif f.ty is T.PY:
            c = self.contract_for_pyobj(f.z)
            if c is None and isinstance(f.z, type):
                c = self.contracts.get(f"{f.z.__module__}:{f.z.__qualname__}.__init__")
        wants = [(c.params.get(k.arg) if c is not None else None) for k in keywords]
        wants = [w if isinstance(w, T.Ty) else None for w in wants]
        yield from self.ev_args([k.value for k in keywords], wants, st, sink)

    def arg_wants(self, f, n):
        c = None
        if f.ty is T.FUN and isinstance(f.z, BoundBuiltin) and f.z.name == "update" and \
                isinstance(f.z.recv.ty, T.DictT):
            return [f.z.recv.ty] + [None] * max(0, len(n.args) - 1)      # d.update(x): x is expected to look like d
        if f.ty is T.FUN and isinstance(f.z, FunV) and f.z.kind == "contract":
            c = self.contracts.get(f.z.key)
        elif f.ty is T.PY:
            c = self.contract_for_pyobj(f.z)
        if c is None:
            return None
        ps = list(c.params.values())
        if c.self_type is not None and f.ty is T.FUN:
            ps = ps[1:] if ps else ps
        return ps + [None] * max(0, len(n.args) - len(ps))

    def call_with_unpacking(self, n, st, sink):
        for st1, f in self.evx(n.func, st, sink):
            if f.ty is T.PY and f.z in self.unpack_rules:
                yield from self.unpack_rules[f.z](self, n, st1, sink)
                return
            if f.ty is T.FUN and isinstance(f.z, FunV) and f.z.kind == "contract":
                c = self.contracts[f.z.key]
                h = self.unpack_hooks.get(c.key)
                if h:
                    yield from h(self, f, n, st1, sink)
                    return
        raise Unsupported("call with * / ** unpacking", n)

    def contract_for_pyobj(self, obj):
        mod = getattr(obj, "__module__", None)
        qn = getattr(obj, "__qualname__", None)
        if mod and qn:
            return self.contracts.get(f"{mod}:{qn}")
        return None

    def apply(self, f, args, kwargs, st, sink, n):
        if f.ty is T.FUN:
            fz = f.z
            if isinstance(fz, BoundBuiltin):
                yield from self.call_method_rule(fz, args, kwargs, st, sink, n)
                return
            if fz.kind == "contract":
                c = self.contracts.get(fz.key)
                if c is None:
                    raise Unsupported(f"no contract for {fz.key}", n)
                a = ([fz.self_v] if getattr(fz, "self_v", None) is not None else []) + list(args)
                yield from self.call_contract(c, a, kwargs, st, sink, n)
                return
            if fz.kind == "inline":
                a = ([fz.self_v] if getattr(fz, "self_v", None) is not None else []) + list(args)
                yield from self.inline_call(fz.key, a, kwargs, st, sink, n)
                return
            if fz.kind == "partial":
                kw = dict(fz.kwargs)
                kw.update(kwargs)
                yield from self.apply(fz.func, list(fz.args) + list(args), kw, st, sink, n)
                return
            if fz.kind == "lambda":
                yield from self.call_lambda(fz, args, st, sink, n)
                return
            if fz.kind == "vocab":
                yield st, self.vocab[fz.name](self, st, *args, **kwargs)
                return
            if fz.kind == "choice":
                # a callable chosen by a condition (f if c else g)
                for cond, g in fz.alts:
                    if self.feasible(st, cond):
                        yield from self.apply(g, args, kwargs, st.assume(cond), sink, n)
                return
            raise Unsupported(f"call of {fz}", n)
        if f.ty is T.PY:
            obj = f.z
            if isinstance(getattr(obj, "__self__", None), logging.Logger):
                yield st, self.lift(None)  # logger.debug/info/warning: dropped (recorded in evidence)
                self.dropped.add("logger call")
                return
            try:
                rule = self.rules.get(obj)
            except TypeError:
                rule = None
            if rule is not None:
                yield from rule(self, args, kwargs, st, sink, n)
                return
            c = self.contract_for_pyobj(obj)
            if c is not None:
                if inspect.ismethod(obj) and isinstance(obj.__self__, type):
                    args = [V(T.PY, obj.__self__)] + list(args)      # classmethod called on the class
                yield from self.call_contract(c, args, kwargs, st, sink, n)
                return
            if isinstance(obj, type) and issubclass(obj, BaseException):
                yield st, V(EXC, Exc(obj, tuple(args)))
                return
            if isinstance(obj, type):
                key = f"{obj.__module__}:{obj.__qualname__}.__init__"
                if key in self.contracts:
                    ci = self.contracts[key]
                    if ci.self_type is not None and ci.returns is None:
                        # a real __init__(self, ...): allocate, initialise, return the object
                        me, st0 = self.fresh(ci.self_type, "new", st)
                        self._arg_nodes = ([], {})
                        decl = self.classes.get(ci.self_type.cls)
                        for a_ in getattr(decl, "alloc_assume", ()) or ():
                            st0 = st0.assume(self.spec(a_, st0, env={"self": me}))   # dynamic class of a new object
                        for st1, _ in self.call_contract(ci, [me] + list(args), kwargs, st0, sink, n):
                            yield st1, me
                        return
                    yield from self.call_contract(ci, args, kwargs, st, sink, n)
                    return
            ikey = self.inline_key_for_pyobj(obj)
            if ikey is not None:
                yield from self.inline_call(ikey, list(args), kwargs, st, sink, n)
                return
            raise Unsupported(f"call of {getattr(obj, '__qualname__', obj)!r} has neither contract nor rule", n)
        if f.ty is EXC:
            raise Unsupported("calling an exception value", n)
        raise Unsupported(f"call of value of type {f.ty}", n)

    # ------------------------------------------------------------------ helpers without a contract: inlined
    def inline_key_for_pyobj(self, obj):
        """a plain function of the package under verification that has no contract: 'module:qualname' when its
        definition can be found in the source tree, else None"""
        obj = getattr(obj, "__wrapped__", obj)            # functools.lru_cache / wraps
        mod, qn = getattr(obj, "__module__", None), getattr(obj, "__qualname__", None)
        if not (inspect.isfunction(obj) and mod and qn and mod.split(".")[0] == self.package and "<" not in qn):
            return None
        try:
            node = self.front.find(f"{mod}:{qn}", missing_ok=True)
        except Exception:
            return None
        return f"{mod}:{qn}" if isinstance(node, ast.FunctionDef) else None

    INLINE_DEPTH = 3

    def inline_call(self, key, args, kwargs, st, sink, n):
        """A callee without a contract is not trusted and not skipped: its real body is executed symbolically in the
        caller's context (so the caller's obligations cover it). Subset: plain `def` with positional/keyword
        parameters, no generator, no nested def, loops only where the engine can cut or unroll them without an
        invariant, nesting <= INLINE_DEPTH, and no in-place mutation of a value-typed argument.
        functools.lru_cache on such a helper is treated as transparent (recorded as an assumption)."""
        depth = st.meta.get("inline_depth", 0)
        if depth >= self.INLINE_DEPTH:
            raise Unsupported(f"inlining of {key}: nesting deeper than {self.INLINE_DEPTH}", n)
        if st.binder and st.mode != "spec":
            raise Unsupported(f"call of {key} (no contract) inside a comprehension / generator body", n)
        node = self.front.find(key)
        a = node.args
        if a.vararg or a.kwarg or a.posonlyargs or a.kwonlyargs:
            raise Unsupported(f"inlining of {key}: * / ** / keyword-only parameters", n)
        for sub in ast.walk(node):
            if isinstance(sub, (ast.Yield, ast.YieldFrom, ast.Await, ast.Global, ast.Nonlocal)) or \
                    (isinstance(sub, (ast.FunctionDef, ast.AsyncFunctionDef, ast.ClassDef)) and sub is not node):
                raise Unsupported(f"inlining of {key}: {type(sub).__name__} in the body", n)
        for d in node.decorator_list:
            txt = ast.unparse(d)
            if "lru_cache" in txt or txt in ("cache", "functools.cache"):
                self.dropped.add(f"lru_cache on inlined helper {key} (treated as transparent)")
            elif txt not in ("staticmethod",):
                raise Unsupported(f"inlining of {key}: decorator {txt}", n)
        names = [p_.arg for p_ in a.args]
        if len(args) > len(names) or any(k not in names for k in kwargs):
            raise Unsupported(f"inlining of {key}: arguments do not match the parameters", n)
        env = dict(zip(names, args))
        for k, v in kwargs.items():
            if k in env:
                raise Unsupported(f"inlining of {key}: parameter {k} given twice", n)
            env[k] = v
        saved = (self.globals_of_current, self.current_key_for_nested, self.loop_ordinal, self.cut_at,
                 self.loop_counter)
        self.globals_of_current = self.front.module_globals(key)
        self.current_key_for_nested = key
        # loops of the helper get ordinals no contract names: they are cut with the empty invariant (sound, weak)
        from .front import loops_in_order
        self.loop_ordinal = {id(l): 1000 * (depth + 1) + i for i, l in enumerate(loops_in_order(node))}
        self.cut_at, self.loop_counter = {}, 0
        self.called.add("inlined:" + key)
        try:
            ndef = len(a.defaults)
            for i, nm in enumerate(names):
                if nm in env:
                    continue
                j = i - (len(names) - ndef)
                if j < 0:
                    raise Unsupported(f"inlining of {key}: missing argument {nm}", n)
                dsink = []
                rs = list(self.evx(a.defaults[j], st.clone(env={}), dsink))
                if len(rs) != 1 or dsink:
                    raise Unsupported(f"inlining of {key}: default of {nm}", n)
                env[nm] = rs[0][1]
            entry_env = dict(env)
            st_in = st.clone(env=env).set_meta("inline_depth", depth + 1).set_meta("inline_want", st.meta.get("want"))
            from .front import strip_docstring
            outs = list(self.exec_block(strip_docstring(node.body), st_in))
        finally:
            (self.globals_of_current, self.current_key_for_nested, self.loop_ordinal, self.cut_at,
             self.loop_counter) = saved
        for o in outs:
            for nm, v0 in entry_env.items():
                v1 = o.st.env.get(nm)
                if v1 is not None and isinstance(v0.ty, (T.ListV, T.ListT, T.DictT, T.SetT, T.MapT)) and \
                        not (v1.ty is v0.ty and v1.z.eq(v0.z)):
                    raise Unsupported(f"inlining of {key}: the helper rebinds or mutates its argument {nm}", n)
            back = o.st.clone(env=st.env).set_meta("inline_depth", depth).set_meta(
                "inline_want", st.meta.get("inline_want")).set_meta("want", st.meta.get("want"))
            if o.kind in ("next", "return"):
                yield back, (o.val if o.kind == "return" and o.val is not None else self.lift(None))
            elif o.kind == "raise":
                sink.append((back, o.val))
            else:
                raise Unsupported(f"inlining of {key}: {o.kind} outside a loop", n)

    def call_lambda(self, fz, args, st, sink, n):
        lam = fz.node
        if len(lam.args.args) != len(args) or lam.args.vararg or lam.args.kwarg:
            raise Unsupported("lambda arity", n)
        env = dict(fz.env)
        for a, v in zip(lam.args.args, args):
            env[a.arg] = v
        for st1, v in self.evx(lam.body, st.clone(env=env), sink):
            yield st1.clone(env=st.env), v

    # ------------------------------------------------------------------ quantifiers
    def quantifier(self, which, gen, st, sink):
        insts = list(self.comp_eval(gen, [gen.elt], st.clone(mode=st.mode), sink))
        if st.mode == "spec":
            if len(insts) != 1:
                raise SpecError("quantifier body forks")
            bound, guard, (v,), _ = insts[0]
            body = self.truthy(v, gen)
            if which == "all":
                yield st, V(T.BOOL, z3.ForAll(bound, z3.Implies(guard, body)) if bound else z3.Implies(guard, body))
            else:
                yield st, V(T.BOOL, z3.Exists(bound, z3.And(guard, body)) if bound else z3.And(guard, body))
            return
        # code mode: the generator body may fork; combine per-fork terms is not needed in the
        # verified subset (all()/any() over pure predicates only)
        if len(insts) != 1:
            raise Unsupported("all()/any() with forking body", gen)
        bound, guard, (v,), _ = insts[0]
        body = self.truthy(v, gen)
        if which == "all":
            yield st, V(T.BOOL, z3.ForAll(bound, z3.Implies(guard, body)))
        else:
            yield st, V(T.BOOL, z3.Exists(bound, z3.And(guard, body)))

    SPECFORMS = ("store", "old", "implies", "iff", "setof", "ite", "dom", "elems", "forall", "exists", "some", "isnone",
                 "the", "dict_eq", "subset", "mapof", "tup", "at_entry", "lex_lt", "vals")

    def specform(self, nm, n, st, sink):
        A = n.args
        if nm == "old":
            if st.old is None:
                raise SpecError("old() outside a two-state context")
            o = st.old
            # locals that are parameters keep their entry values in old(); env of the old state is used
            env = dict(o.env)
            for k, v in st.env.items():
                if k not in env:
                    env[k] = v
            for k in st.meta.get("spec_bound", ()):  # names bound by the spec context (params, quantifiers)
                if k in st.env:
                    env[k] = st.env[k]
            so = o.clone(env=env, mode="spec", old=o.old)
            for _, v in self.evx(A[0], so, sink):
                yield st, v
            return
        if nm in ("forall", "exists"):
            # forall(lambda x, y: body, Ty1, Ty2)  -- typed binder over whole sorts
            lam = A[0]
            if not isinstance(lam, ast.Lambda):
                raise SpecError("forall/exists expects a lambda")
            names = [a.arg for a in lam.args.args]
            tys = []
            for tn in A[1:]:
                tys.append(self.resolve_type(tn))
            if len(tys) != len(names):
                raise SpecError("forall/exists: one type per bound variable")
            consts = [t.fresh(nme) for t, nme in zip(tys, names)]
            env = dict(st.env)
            for nme, t, c in zip(names, tys, consts):
                env[nme] = V(t, c)
            sb = tuple(st.meta.get("spec_bound", ())) + tuple(names)
            for _, v in self.evx(lam.body, st.clone(env=env).set_meta("spec_bound", sb), sink):
                body = self.truthy(v, n)
                invs = [t.inv(c) for t, c in zip(tys, consts)]
                invs = [i for i in invs if i is not None]
                if nm == "forall":
                    yield st, V(T.BOOL, z3.ForAll(consts, z3.Implies(zand(*invs), body) if invs else body))
                else:
                    yield st, V(T.BOOL, z3.Exists(consts, z3.And(*(invs + [body]))))
            return
        if nm == "setof":
            lam = A[0]
            ty = self.resolve_type(A[1])
            c = ty.fresh(lam.args.args[0].arg)
            env = dict(st.env)
            env[lam.args.args[0].arg] = V(ty, c)
            sb = tuple(st.meta.get("spec_bound", ())) + (lam.args.args[0].arg,)
            for _, v in self.evx(lam.body, st.clone(env=env).set_meta("spec_bound", sb), sink):
                yield st, V(T.SetT(ty), z3.Lambda([c], self.truthy(v, n)))
            return
        if nm == "mapof":
            # mapof(lambda k: value, KeyTy) -> array KeyTy -> value sort (as the vals of a dict)
            lam = A[0]
            ty = self.resolve_type(A[1])
            c = ty.fresh(lam.args.args[0].arg)
            env = dict(st.env)
            env[lam.args.args[0].arg] = V(ty, c)
            for _, v in self.evx(lam.body, st.clone(env=env), sink):
                yield st, V(T.PY, ("array", ty, v.ty, z3.Lambda([c], v.z)))
            return
        for st1, vs in self.ev_list(A, st, sink):
            if nm == "implies":
                yield st1, V(T.BOOL, z3.Implies(self.truthy(vs[0]), self.truthy(vs[1])))
            elif nm == "iff":
                yield st1, V(T.BOOL, self.truthy(vs[0]) == self.truthy(vs[1]))
            elif nm == "ite":
                a, b = self.unify(vs[1], vs[2], n)
                yield st1, V(a.ty, z3.If(self.truthy(vs[0]), a.z, b.z))
            elif nm == "dom":
                d = vs[0]
                yield st1, V(T.SetT(d.ty.key), d.ty.dom(d.z))
            elif nm == "vals":
                d = vs[0]
                yield st1, V(T.PY, ("array", d.ty.key, d.ty.val, d.ty.vals(d.z)))
            elif nm == "elems":
                l = vs[0]
                if isinstance(l.ty, T.ListT):
                    l = self.seq_to_listv(l)
                yield st1, V(T.SetT(l.ty.elem), l.ty.elems(l.z))
            elif nm == "some":
                ot = T.Opt(vs[0].ty)
                yield st1, V(ot, ot.some(vs[0].z))
            elif nm == "isnone":
                yield st1, V(T.BOOL, vs[0].ty.is_none(vs[0].z))
            elif nm == "the":
                yield st1, V(vs[0].ty.elem, vs[0].ty.get(vs[0].z))
            elif nm == "dict_eq":
                a, b = self.unify(vs[0], vs[1], n)
                yield st1, V(T.BOOL, self.dict_eq(a, b))
            elif nm == "store":
                m, k, v = vs
                if isinstance(m.ty, T.MapT):
                    yield st1, V(m.ty, z3.Store(m.z, self.coerce(k, m.ty.key, n).z, self.coerce(v, m.ty.val, n).z))
                elif isinstance(m.ty, T.DictT):
                    kz = self.coerce(k, m.ty.key, n).z
                    yield st1, V(m.ty, m.ty.mk(z3.Store(m.ty.dom(m.z), kz, True),
                                               z3.Store(m.ty.vals(m.z), kz, self.coerce(v, m.ty.val, n).z)))
                elif isinstance(m.ty, T.SetT):
                    yield st1, V(m.ty, z3.Store(m.z, self.coerce(k, m.ty.elem, n).z, self.truthy(v)))
                else:
                    raise SpecError("store() on " + str(m.ty))
            elif nm == "subset":
                x = vs[0].ty.elem.fresh("x")
                yield st1, V(T.BOOL, z3.ForAll([x], z3.Implies(z3.Select(vs[0].z, x), z3.Select(vs[1].z, x))))
            elif nm == "tup":
                yield st1, self.mk_tuple(vs)
            elif nm == "lex_lt":
                yield st1, V(T.BOOL, self.lex_lt(self.tuple_items(vs[0]), self.tuple_items(vs[1])))
            else:
                raise SpecError(f"spec form {nm}")

    def lex_lt(self, a, b):
        if not a:
            return z3.BoolVal(False)
        return z3.Or(a[0].z < b[0].z, z3.And(a[0].z == b[0].z, self.lex_lt(a[1:], b[1:])))

    def resolve_type(self, node):
        if isinstance(node, ast.Name) and node.id in self.universes:
            return self.universes[node.id]
        raise SpecError(f"unknown type name in spec: {ast.unparse(node)}")

    # ------------------------------------------------------------------ the modular call rule
    def bind_params(self, c, args, kwargs, n):
        names = list(c.params.keys())
        if len(args) > len(names):
            raise Unsupported(f"too many positional arguments for {c.key}", n)
        bound = {}
        for nm, a in zip(names, args):
            bound[nm] = a
        for k, v in kwargs.items():
            if k not in c.params:
                raise Unsupported(f"unexpected keyword {k} for {c.key}", n)
            if k in bound:
                raise Unsupported(f"duplicate argument {k} for {c.key}", n)
            bound[k] = v
        missing = [nm for nm in names if nm not in bound]
        if missing:
            dflts = self.defaults_of(c)
            for nm in missing:
                if nm not in dflts:
                    raise Unsupported(f"missing argument {nm} for {c.key}", n)
                bound[nm] = dflts[nm]
        out = {}
        from .engine import FnRef
        for nm in names:
            pty = c.params[nm]
            if isinstance(pty, FnRef):
                out[nm] = bound[nm]
                self.check_callable_arg(bound[nm], pty, n)
            elif isinstance(pty, V):
                out[nm] = bound[nm]
            elif pty is not None and (bound[nm].ty.name, pty.name) in self.arg_hooks:
                out[nm] = self.arg_hooks[(bound[nm].ty.name, pty.name)](self, bound[nm], self._cur_call_state)
            else:
                out[nm] = self.coerce(bound[nm], pty, n) if pty is not None else bound[nm]
        return out

    def check_callable_arg(self, f, fnref, n):
        """a callable passed for a parameter with an interface contract: a refinement lemma must be registered
        for it, and the lemma's closure facts are proof obligations right here"""
        st = self._cur_call_state
        impl, env = self.impl_of(f, n)
        if impl == fnref.key:
            return
        ent = self.refinements.get((impl, fnref.key))
        if ent is None:
            raise Unsupported(f"callable {impl} passed where {fnref.key} is expected: no refinement lemma registered", n)
        key, closure_requires, names = ent
        self.called.add(key)
        for i, r in enumerate(closure_requires):
            goal = self.spec(r, st, env=env, old=st)
            self.emit("pre@call", f"{key}#closure{i + 1}", n, st, goal, note=r)

    def impl_of(self, f, n):
        """-> (implementation contract key, environment of its bound closure variables)"""
        if f.ty is T.FUN and isinstance(f.z, FunV):
            fz = f.z
            if fz.kind == "contract":
                env = {"self": fz.self_v} if getattr(fz, "self_v", None) is not None else {}
                return fz.key, env
            if fz.kind == "partial":
                k, env = self.impl_of(fz.func, n)
                env = dict(env)
                env.update(fz.kwargs)
                return k, env
        if f.ty is T.PY:
            c = self.contract_for_pyobj(f.z)
            if c is not None:
                return c.key, {}
        raise Unsupported("cannot identify the implementation of a callable argument", n)

    def defaults_of(self, c):
        if getattr(c, "_defaults", None) is not None:
            return c._defaults
        d = {}
        node = self.front.find(c.body_of or c.key, missing_ok=True)
        if node is not None:
            a = node.args
            pos = a.posonlyargs + a.args
            for arg, dflt in zip(pos[len(pos) - len(a.defaults):], a.defaults):
                d[arg.arg] = self.const_default(dflt, c)
            for arg, dflt in zip(a.kwonlyargs, a.kw_defaults):
                if dflt is not None:
                    d[arg.arg] = self.const_default(dflt, c)
            for va in (a.vararg, a.kwarg):
                if va is not None:
                    d[va.arg] = self.lift(None)      # *args / **kwargs: abstracted (contracts may not depend on them)
        d.update(getattr(c, "defaults", {}) or {})
        c._defaults = d
        return d

    def const_default(self, node, c):
        mod = self.front.module_globals(c.body_of or c.key)
        try:
            return self.lift(eval(compile(ast.Expression(node), "<default>", "eval"), dict(mod)))
        except Exception as e:
            raise Unsupported(f"default value of {c.key}: {e}", node)

    def spec_env_for_call(self, c, bound, st):
        """environment in which the callee's spec expressions are read at a call site"""
        env = dict(bound)
        for name in c.captures:
            if name in st.env:
                env[name] = st.env[name]
        return env

    def havoc_modifies(self, c, mods, env, st, pre):
        """returns the post-call state with everything in `mods` replaced by fresh values"""
        for m in mods:
            st = self.havoc_one(m, env, st, pre, c)
        return st

    def havoc_one(self, m, env, st, pre, c=None):
        m = m.strip()
        if m.startswith("ghost:"):
            name = m[6:]
            gty = self.ghost_decl[name]
            v, st = self.fresh(gty, name, st)
            return st.set_ghost(name, v)
        if "." in m:
            base, field = m.rsplit(".", 1)
            if base in self.classes:  # Class.field : all objects
                fty = self.classes[base].fields[field]
                arr = z3.FreshConst(z3.ArraySort(self.objT(base).sort(), fty.sort()), f"{base}.{field}")
                return self.assume_heap_inv(st.set_heap((base, field), arr), base, field, fty)
            bv = self.spec(base, pre, env=env, want_bool=False)
            if not isinstance(bv.ty, T.ObjT):
                raise SpecError(f"modifies {m}: base is not an object")
            f = self.find_field(bv.ty.cls, field)
            if f is None or f[0] != "field":
                raise SpecError(f"modifies {m}: not a heap field")
            _, decl, fty = f
            nv, st = self.fresh(fty, field, st)
            arr = z3.Store(st.heap[(decl.name, field)], bv.z, nv.z)
            return st.set_heap((decl.name, field), arr)
        # a captured / caller variable mutated in place by the callee (closure cell or argument)
        name = m
        if name in st.env:
            v = st.env[name]
            if v.ty in (T.PY, T.FUN):
                raise SpecError(f"modifies {m}: variable is not symbolic")
            nv, st = self.fresh(v.ty, name, st)
            return st.set_var(name, nv)
        if name in self.ghost_decl:
            return self.havoc_one("ghost:" + name, env, st, pre, c)
        raise SpecError(f"modifies {m}: unknown location at call of {c.key if c else '?'}")

    def assume_heap_inv(self, st, cls, field, fty):
        o = self.objT(cls).fresh("o")
        inv = fty.inv(z3.Select(st.heap[(cls, field)], o))
        if inv is not None:
            st = st.assume(z3.ForAll([o], inv))
        return st

    def param_lvalues(self, c, args, n):
        """map callee parameter names to the caller's argument expressions (for in-place mutation)"""
        nodes, kwnodes = getattr(self, "_arg_nodes", ([], {}))
        self._arg_nodes = ([], {})
        names = list(c.params.keys())
        off = len(args) - len(nodes) if len(args) >= len(nodes) else 0  # bound self
        out = {}
        for i, nd in enumerate(nodes):
            if i + off < len(names):
                out[names[i + off]] = nd
        out.update(kwnodes)
        return out

    def call_contract(self, c, args, kwargs, st, sink, n, awaited=False):
        lv = self.param_lvalues(c, args, n)
        if st.binder and not (c.returns_expr is not None or c.pure) and st.mode != "spec":
            raise Unsupported(f"call of non-functional {c.key} inside a comprehension / generator body", n)
        self._cur_call_state = st
        self._last_called = c
        if c.is_async and not st.meta.get("awaiting") and not st.meta.get("running_coro") and st.mode != "spec":
            # calling a coroutine function only creates the coroutine object; it runs when awaited / scheduled
            yield st, V(T.PY, ("coro", c, list(args), dict(kwargs)))
            return
        st = st.set_meta("running_coro", False)
        bound = self.bind_params(c, args, kwargs, n)
        env = self.spec_env_for_call(c, bound, st)
        self.stats["calls"] += 1
        self.called.add(c.key)
        # the callee's spec expressions see the callee's names only (parameters, captures), never the caller's locals
        pre = st.clone(env=dict(env))
        # 1. preconditions
        for i, r in enumerate(c.requires):
            goal = self.spec(r, pre, env=env, old=pre, isolate=True)
            self.emit("pre@call", f"{c.key}#req{i + 1}", n, pre, goal, note=r if isinstance(r, str) else "")
        # 2. termination measure for recursion inside a group
        cur = self.current
        if cur is not None and c.decreases is not None and cur.decreases is not None and \
                c.rec_group is not None and c.rec_group == cur.rec_group:
            callee_m = self.tuple_items(self.spec(c.decreases, pre, env=env, old=pre, want_bool=False, isolate=True))
            caller_m = self.entry_measure
            goal = z3.And(self.lex_lt(callee_m, caller_m), *[m.z >= 0 for m in callee_m])
            self.emit("decreases", f"{c.key}", n, pre, goal)
        # 3. normal return (spec expressions are read with the POST values of modified captures)
        post, newvals = self.havoc_params(c, c.modifies, lv, st, sink, n)
        post = self.havoc_modifies(c, [m for m in c.modifies if m not in c.params], env, post, pre)
        env_post = self.spec_env_for_call(c, bound, post)
        env_post.update(newvals)
        if c.returns_expr is not None:
            res = self.spec(c.returns_expr, post, env=env_post, old=pre, want_bool=False, isolate=True)
            if c.returns is not None:
                res = self.coerce(res, c.returns, n)
        elif c.returns is None or c.returns is T.NONE:
            res = self.lift(None)
        else:
            res, post = self.fresh(c.returns, "ret", post)
        ens = [self.spec(e, post, env=env_post, old=pre, result=res, isolate=True) for e in c.ensures]
        # definitional entry assumptions of the callee (it introduces spec symbols such as deps0 / bstat0 as
        # names for parts of ITS entry state): a conservative extension as long as the symbols are fresh here
        defs = []
        if getattr(c, "defines", None) and c.entry_assume:
            cur_defs = set(getattr(self.current, "defines", ()) or ())
            used = self.symbols_in_pc(set(c.defines), pre)
            if used and not set(c.defines) <= cur_defs:
                raise Unsupported(f"{c.key} defines {sorted(used)}, which the caller already constrains "
                                  f"(a second definition would not be conservative)", n)
            for i, e in enumerate(c.entry_assume):
                z = self.spec(e, pre, env=env, old=pre, isolate=True)
                mine = self.symbols_of(z, set(c.defines))
                if mine & used:
                    # the caller constrained a symbol of this definition itself: the definition is a proof obligation
                    self.emit("pre@call", f"{c.key}#def{i + 1}", n, pre, z, note=e if isinstance(e, str) else "")
                else:
                    defs.append(z)         # its symbols are fresh on this path: a conservative extension
        normal = post.assume(*(defs + ens))
        # 4. exceptional returns
        for ename, spec in c.raises.items():
            cls = self.resolve_exc(ename, c)
            if isinstance(spec, dict):
                cond, eens, emods = spec.get("cond", "True"), spec.get("ensures", []), spec.get("modifies")
                exact = spec.get("exact", True)
            else:
                cond, eens, emods, exact = spec, [], None, True
            mods = emods if emods is not None else (c.on_exc_modifies if c.on_exc_modifies is not None else c.modifies)
            est, newvals_e = self.havoc_params(c, mods, lv, st, sink, n)
            est = self.havoc_modifies(c, [m for m in mods if m not in c.params], env, est, pre)
            env_e = self.spec_env_for_call(c, bound, est)
            env_e.update(newvals_e)
            cz = self.spec(cond, est, env=env_e, old=pre, isolate=True)
            ez = [self.spec(e, est, env=env_e, old=pre, isolate=True) for e in list(eens) + list(c.exc_ensures)]
            if self.feasible(est, zand(cz, *ez)):
                sink.append((est.assume(cz, *(ez + defs)), Exc(cls, exact=exact)))
        if c.meta_noreturn if hasattr(c, "meta_noreturn") else False:
            return
        yield normal, res

    def havoc_params(self, c, mods, lv, st, sink, n):
        """parameters mutated in place by the callee: havoc the caller's lvalue passed for them"""
        newvals = {}
        for m in mods:
            if m in c.params and m not in c.captures:
                node = lv.get(m)
                if node is None:
                    raise Unsupported(f"{c.key} mutates parameter {m} but the argument is not an lvalue", n)
                nv, st = self.fresh(c.params[m], m, st)
                st = self.write_back(node, st, nv, sink)
                newvals[m] = nv
        return st, newvals

    @staticmethod
    def symbols_of(z, names):
        out, seen, todo = set(), set(), [z]
        while todo:
            e = todo.pop()
            if e.get_id() in seen:
                continue
            seen.add(e.get_id())
            if z3.is_quantifier(e):
                todo.append(e.body())
            elif z3.is_app(e):
                if e.decl().name() in names:
                    out.add(e.decl().name())
                todo.extend(e.children())
        return out

    def symbols_in_pc(self, names, st):
        out = set()
        for f in st.pc:
            out |= self.symbols_of(f, names)
        return out

    def check_symbols_unconstrained(self, names, st, n):
        used = self.symbols_in_pc(set(names), st)
        if used:
            raise Unsupported(f"definitional assumption on {sorted(used)}, which this path already constrains", n)

    def symbols_fresh(self, c, st):
        try:
            self.check_fresh_symbols(c, st, None)
            return True
        except Unsupported:
            return False

    def check_fresh_symbols(self, c, st, n):
        names = set(c.defines)
        seen, todo = set(), list(st.pc)
        while todo:
            e = todo.pop()
            if e.get_id() in seen:
                continue
            seen.add(e.get_id())
            if z3.is_quantifier(e):
                todo.append(e.body())
                continue
            if z3.is_app(e):
                if e.decl().name() in names:
                    raise Unsupported(f"{c.key} defines {e.decl().name()}, which the caller already constrains "
                                      f"(a second definition would not be conservative)", n)
                todo.extend(e.children())

    def resolve_exc(self, name, c=None):
        if isinstance(name, type):
            return name
        g = {}
        if c is not None:
            try:
                g = self.front.module_globals(c.body_of or c.key)
            except Exception:
                g = {}
        if name in g and isinstance(g[name], type):
            return g[name]
        import builtins
        if hasattr(builtins, name):
            return getattr(builtins, name)
        if name in self.exc_names:
            return self.exc_names[name]
        if "." in name or ":" in name:
            import importlib
            modname, _, qn = name.replace(":", ".").rpartition(".")
            return getattr(importlib.import_module(modname), qn)
        raise SpecError(f"unknown exception class {name}")

    # ------------------------------------------------------------------ builtin method rules on modelled types
    def call_method_rule(self, bb, args, kwargs, st, sink, n):
        recv, name = bb.recv, bb.name
        t = recv.ty
        key = (t.name, name) if (t.name, name) in self.method_rules else None
        if key is None:
            for cls in type(t).__mro__:
                if (cls, name) in self.method_rules:
                    key = (cls, name)
                    break
        if key is None:
            raise Unsupported(f"method {name} on {t}", n)
        yield from self.method_rules[key](self, bb, args, kwargs, st, sink, n)

    # ------------------------------------------------------------------ await (cooperative concurrency model)
    def do_await(self, n, st, sink):
        """`await e`: evaluate e (a call with a contract, flagged awaited); then the interference
        point: shared state is havocked under the rely relation, and CancelledError may be delivered."""
        inner = n.value
        model = self.async_model
        if model is None:
            raise Unsupported("await without a declared concurrency model", n)
        # exceptions raised by the awaited operation itself also pass an interference point
        inner_sink = []
        self._last_called = None
        results = list(self.evx(inner, st.set_meta("awaiting", True), inner_sink))
        lc = self._last_called
        if results and all(v.ty is T.PY and isinstance(v.z, tuple) and v.z and v.z[0] == "coro" for _, v in results):
            # `await coro_object`: the coroutine runs now
            sink.extend(inner_sink)
            for st1, v in results:
                _, cc, cargs, ckw = v.z
                for st2, r in self.call_contract(cc, cargs, ckw, st1.set_meta("running_coro", True), sink, n):
                    yield st2.set_meta("awaiting", False), r
            return
        if lc is not None and lc.is_async:
            # awaiting a coroutine function that is itself under contract: it runs synchronously up to ITS first
            # suspension; interference and cancellation points are the ones inside it (its own contract)
            sink.extend(inner_sink)
            for st1, v in results:
                yield st1.set_meta("awaiting", False), v
            return
        for est, exc in inner_sink:
            sink.append((model.interfere(self, est.set_meta("awaiting", False), n), exc))
        # delivery of CancelledError at this suspension point (the awaited operation did not complete)
        model.cancelled(self, st, sink, n)
        for st1, v in results:
            yield model.interfere(self, st1.set_meta("awaiting", False), n), v

"""pyvc statement execution: path-by-path symbolic execution with loop cutting by invariants."""
import ast
import z3
from . import ty as T
from .core import (V, Exc, EXC, FunV, State, Outcome, Unsupported, SpecError, Loop, lineno)
from .expr import zand, zor, BoundBuiltin


def assigned_names(nodes):
    """names (re)bound anywhere in the statements (not descending into nested defs)"""
    out = set()

    class Vis(ast.NodeVisitor):
        def visit_FunctionDef(self, n):
            out.add(n.name)

        visit_AsyncFunctionDef = visit_FunctionDef

        def visit_Lambda(self, n):
            pass

        def visit_Name(self, n):
            if isinstance(n.ctx, (ast.Store, ast.Del)):
                out.add(n.id)

        def visit_ListComp(self, n):
            for g in n.generators:
                self.visit(g.iter)

        visit_SetComp = visit_DictComp = visit_GeneratorExp = visit_ListComp

    for s in nodes:
        Vis().visit(s)
    return out


MUTATORS = {"append", "add", "update", "pop", "clear", "remove", "discard", "extend", "setdefault", "insert",
            "popitem"}


class StmtMixin:
    # ------------------------------------------------------------------ blocks
    def exec_block(self, stmts, st):
        """yields Outcomes of executing the statement list from state st"""
        if not stmts:
            yield Outcome("next", st)
            return
        head, rest = stmts[0], stmts[1:]
        for o in self.exec_stmt(head, st):
            if o.kind == "next":
                yield from self.exec_block(rest, o.st)
            else:
                yield o

    def exec_stmt(self, s, st):
        m = getattr(self, "ex_" + type(s).__name__, None)
        if m is None:
            raise Unsupported(f"statement {type(s).__name__}", s)
        self.stats["stmts"] += 1
        if self.stats["stmts"] > self.max_stmts:
            raise Unsupported("path explosion: statement budget exceeded", s)
        cut = getattr(self, "cut_at", {}).get(id(s))
        if cut is not None:
            # opaque/reveal: prove the fact with the definitions revealed (own axiom groups), then use it opaquely
            cenv = {}
            if isinstance(s, (ast.If, ast.While)):
                # `cond` in a cut is the REAL branch condition of the statement (never a copy of it)
                sk = []
                rs = list(self.evx(s.test, st, sk))
                if len(rs) != 1 or sk:
                    raise Unsupported("cut at a statement whose condition forks or raises", s)
                cenv["cond"] = V(T.BOOL, self.truthy(rs[0][1], s))
            if cut.get("assume"):
                # a definitional assumption in the middle of a function: the listed spec symbols must not have been
                # constrained on this path so far (then any satisfiable constraint on them is a conservative extension;
                # satisfiability is the contract author's obligation and is stated next to the cut)
                names = set(cut.get("define", ()))
                if not names:
                    raise SpecError("a cut with `assume` must list the symbols it defines")
                self.check_symbols_unconstrained(names, st, s)
                for sp in cut["assume"]:
                    st = st.assume(self.spec(sp, st, env=cenv, old=st.old))
            for i, sp in enumerate(cut.get("prove", ())):
                # proved with the listed opaque functions replaced by their definitions (quantifier free) ...
                g_open = self.spec(sp, st.set_meta("reveal", tuple(cut.get("reveal", ()))), env=cenv, old=st.old)
                # only quantifier-free hypotheses are kept (sound: fewer hypotheses), so the query stays in QF_S
                qf = st.clone(pc=tuple(f for f in st.pc if not self._has_quantifier(f)))
                self.emit("cut", f"{cut['at'][0]}{cut['at'][1]}#{i + 1}", s, qf, g_open, note=sp,
                          uses=cut.get("uses", ()))
                # ... and used further on with the functions opaque
                st = st.assume(self.spec(sp, st, env=cenv, old=st.old))
        yield from m(s, st)

    @staticmethod
    def _has_quantifier(f):
        seen, todo = set(), [f]
        while todo:
            e = todo.pop()
            if e.get_id() in seen:
                continue
            seen.add(e.get_id())
            if z3.is_quantifier(e):
                return True
            todo.extend(e.children())
        return False

    def _flush(self, sink):
        for est, exc in sink:
            yield Outcome("raise", est, exc)
        sink.clear()

    # ------------------------------------------------------------------ simple statements
    def ex_Pass(self, s, st):
        yield Outcome("next", st)

    def ex_Expr(self, s, st):
        if isinstance(s.value, ast.Constant):  # docstring
            yield Outcome("next", st)
            return
        sink = []
        for st1, _ in self.evx(s.value, st, sink):
            yield Outcome("next", st1)
        yield from self._flush(sink)

    def ex_Return(self, s, st):
        if s.value is None:
            yield Outcome("return", st, self.lift(None))
            return
        sink = []
        want = self.current.returns if self.current is not None else None
        if st.meta.get("inline_depth", 0):
            want = st.meta.get("inline_want")        # inside an inlined helper: what its call site expects
        st0 = st.set_meta("want", want) if want is not None else st
        for st1, v in self.evx(s.value, st0, sink):
            yield Outcome("return", st1.set_meta("want", st.meta.get("want")), v)
        yield from self._flush(sink)

    def ex_Assert(self, s, st):
        sink = []
        for st1, v in self.evx(s.test, st, sink):
            t = self.truthy(v, s)
            if self.feasible(st1, z3.Not(t)):
                yield Outcome("raise", st1.assume(z3.Not(t)), Exc(AssertionError))
            yield Outcome("next", st1.assume(t))
        yield from self._flush(sink)

    def ex_Raise(self, s, st):
        if s.exc is None:
            if st.cur_exc is None:
                raise Unsupported("bare raise outside handler", s)
            yield Outcome("raise", st, st.cur_exc)
            return
        sink = []
        old_lenient = self.lenient
        self.lenient = True
        try:
            results = list(self.evx_lenient_exc(s.exc, st, sink))
        finally:
            self.lenient = old_lenient
        for st1, v in results:
            if v.ty is EXC:
                yield Outcome("raise", st1, v.z)
            elif v.ty is T.PY and isinstance(v.z, type) and issubclass(v.z, BaseException):
                yield Outcome("raise", st1, Exc(v.z))
            else:
                raise Unsupported("raise of non-exception value", s)
        yield from self._flush(sink)

    def evx_lenient_exc(self, node, st, sink):
        """exception constructor: the class matters, message arguments are evaluated leniently"""
        if isinstance(node, ast.Call):
            for st1, f in self.evx(node.func, st, sink):
                if f.ty is T.PY and isinstance(f.z, type) and issubclass(f.z, BaseException):
                    yield st1, V(EXC, Exc(f.z))
                    return
        yield from self.evx(node, st, sink)

    def ex_Global(self, s, st):
        raise Unsupported("global statement", s)

    def ex_Nonlocal(self, s, st):
        yield Outcome("next", st)

    def ex_Import(self, s, st):
        raise Unsupported("import inside function", s)

    ex_ImportFrom = ex_Import

    def ex_Break(self, s, st):
        yield Outcome("break", st)

    def ex_Continue(self, s, st):
        yield Outcome("continue", st)

    # ------------------------------------------------------------------ assignment
    def declared_type(self, name):
        c = self.current
        if c is None:
            return None
        return c.locals.get(name)

    def ex_Assign(self, s, st):
        sink = []
        want = None
        if len(s.targets) == 1 and isinstance(s.targets[0], ast.Name):
            want = self.declared_type(s.targets[0].id)
        elif len(s.targets) == 1:
            want = self.lvalue_type(s.targets[0], st)
        st0 = st.set_meta("want", want)
        for st1, v in self.evx(s.value, st0, sink):
            st1 = st1.set_meta("want", st.meta.get("want"))
            sts = [st1]
            for tgt in s.targets:
                nxt = []
                for sx in sts:
                    nxt.extend(self.assign(tgt, v, sx, sink))
                sts = nxt
            for sx in sts:
                yield Outcome("next", sx)
        yield from self._flush(sink)

    def ex_AnnAssign(self, s, st):
        if s.value is None:
            yield Outcome("next", st)
            return
        yield from self.ex_Assign(ast.Assign(targets=[s.target], value=s.value, lineno=s.lineno), st)

    def lvalue_type(self, tgt, st):
        try:
            if isinstance(tgt, ast.Attribute):
                sink = []
                for _, b in self.evx(tgt.value, st, sink):
                    if isinstance(b.ty, T.ObjT):
                        f = self.find_field(b.ty.cls, tgt.attr)
                        if f and f[0] == "field":
                            return f[2]
            if isinstance(tgt, ast.Subscript):
                sink = []
                for _, b in self.evx(tgt.value, st, sink):
                    if isinstance(b.ty, T.DictT):
                        return b.ty.val
        except Unsupported:
            return None
        return None

    def assign(self, tgt, v, st, sink):
        """returns list of states after `tgt = v`"""
        if isinstance(tgt, ast.Name):
            dt = self.declared_type(tgt.id)
            if dt is not None and v.ty not in (T.FUN,):
                v = self.coerce(v, dt, tgt)
            elif tgt.id in st.env and st.env[tgt.id].ty not in (T.PY, T.FUN, EXC) and v.ty is T.PY:
                v = self.coerce(v, st.env[tgt.id].ty, tgt)
            return [st.set_var(tgt.id, v)]
        if isinstance(tgt, (ast.Tuple, ast.List)):
            items = self.tuple_items(v, tgt)
            if len(items) != len(tgt.elts):
                raise Unsupported("unpacking arity mismatch", tgt)
            sts = [st]
            for t1, item in zip(tgt.elts, items):
                nxt = []
                for sx in sts:
                    nxt.extend(self.assign(t1, item, sx, sink))
                sts = nxt
            return sts
        if isinstance(tgt, ast.Attribute):
            out = []
            for st1, base in self.evx(tgt.value, st, sink):
                out.append(self.store_attr(base, tgt.attr, v, st1, tgt))
            return out
        if isinstance(tgt, ast.Subscript):
            out = []
            for st1, base in self.evx(tgt.value, st, sink):
                for st2, idx in self.evx(tgt.slice, st1, sink):
                    newbase = self.store_item(base, idx, v, st2, sink, tgt)
                    if newbase is not None:
                        st3 = self.write_back(tgt.value, st2, newbase, sink)
                        mon = getattr(self.current, "item_monitors", {}) if self.current is not None else {}
                        if isinstance(tgt.value, ast.Name) and tgt.value.id in mon:
                            st3 = mon[tgt.value.id](self, st3, idx, v)
                        out.append(st3)
            return out
        raise Unsupported("assignment target", tgt)

    def store_attr(self, base, attr, v, st, n):
        if not isinstance(base.ty, T.ObjT):
            raise Unsupported(f"attribute store on {base.ty}", n)
        f = self.find_field(base.ty.cls, attr)
        if f is None or f[0] != "field":
            raise Unsupported(f"store to undeclared / constant attribute {base.ty.cls}.{attr}", n)
        _, decl, fty = f
        v = self.coerce(v, fty, n)
        arr = z3.Store(st.heap[(decl.name, attr)], base.z, v.z)
        st2 = st.set_heap((decl.name, attr), arr)
        return self.on_store(st2, decl.name, attr, base, v, n)

    def on_store(self, st, cls, field, base, v, n):
        h = self.store_monitors.get((cls, field))
        return h(self, st, base, v, n) if h else st

    def store_item(self, base, idx, v, st, sink, n):
        t = base.ty
        if isinstance(t, T.DictT):
            k = self.coerce(idx, t.key, n).z
            val = self.coerce(v, t.val, n).z
            return V(t, t.mk(z3.Store(t.dom(base.z), k, True), z3.Store(t.vals(base.z), k, val)))
        raise Unsupported(f"item store on {t}", n)

    def write_back(self, node, st, newv, sink):
        """store a new (functionally updated) collection value back into the lvalue `node`"""
        if isinstance(node, ast.Name):
            if node.id not in st.env:
                raise Unsupported(f"write-back to unbound {node.id}", node)
            alias = st.meta.get("alias", {}).get(node.id)
            if alias is not None:
                st = self.write_back(alias, st, newv, sink)
            return st.set_var(node.id, newv)
        if isinstance(node, ast.Attribute):
            for st1, base in self.evx(node.value, st, sink):
                return self.store_attr(base, node.attr, newv, st1, node)
        if isinstance(node, ast.Subscript):
            for st1, base in self.evx(node.value, st, sink):
                for st2, idx in self.evx(node.slice, st1, sink):
                    nb = self.store_item(base, idx, newv, st2, sink, node)
                    return self.write_back(node.value, st2, nb, sink)
        raise Unsupported("in-place mutation of a temporary (no lvalue to write back to)", node)

    def ex_AugAssign(self, s, st):
        load = ast.copy_location(ast.BinOp(left=self._as_load(s.target), op=s.op, right=s.value), s)
        yield from self.ex_Assign(ast.Assign(targets=[s.target], value=load, lineno=s.lineno), st)

    def _as_load(self, t):
        import copy
        t2 = copy.deepcopy(t)
        for x in ast.walk(t2):
            if hasattr(x, "ctx"):
                x.ctx = ast.Load()
        return t2

    def ex_Delete(self, s, st):
        sink = []
        sts = [st]
        for tgt in s.targets:
            nxt = []
            for sx in sts:
                if isinstance(tgt, ast.Subscript):
                    for st1, base in self.evx(tgt.value, sx, sink):
                        for st2, idx in self.evx(tgt.slice, st1, sink):
                            nxt.extend(self.del_item(base, idx, st2, sink, tgt))
                else:
                    raise Unsupported("del of non-subscript", s)
            sts = nxt
        for sx in sts:
            yield Outcome("next", sx)
        yield from self._flush(sink)

    def del_item(self, base, idx, st, sink, n):
        t = base.ty
        if t.name in self.delitem_hooks:
            return self.delitem_hooks[t.name](self, base, idx, st, sink, n)
        if not isinstance(t, T.DictT):
            raise Unsupported(f"del item on {t}", n)
        k = self.coerce(idx, t.key, n).z
        present = z3.Select(t.dom(base.z), k)
        if self.feasible(st, z3.Not(present)):
            sink.append((st.assume(z3.Not(present)), Exc(KeyError)))
        nb = V(t, t.mk(z3.Store(t.dom(base.z), k, False), t.vals(base.z)))
        return [self.write_back(n.value, st.assume(present), nb, sink)]

    # ------------------------------------------------------------------ control flow
    def ex_If(self, s, st):
        sink = []
        for st1, c in self.evx(s.test, st, sink):
            t = self.truthy(c, s)
            if self.feasible(st1, t):
                self.cover(s.body[0], "then")
                yield from self.exec_block(s.body, st1.assume(t))
            if self.feasible(st1, z3.Not(t)):
                if s.orelse:
                    self.cover(s.orelse[0], "else")
                yield from self.exec_block(s.orelse, st1.assume(z3.Not(t)))
        yield from self._flush(sink)

    def cover(self, node, what):
        self.covered.add((lineno(node), what))

    def ex_FunctionDef(self, s, st):
        key = f"{self.current_key_for_nested}.{s.name}"
        memo = None
        for d in s.decorator_list:
            src = ast.unparse(d)
            if src.startswith("lru_cache"):
                memo = True
            elif src.startswith("wraps"):
                pass
            else:
                raise Unsupported(f"decorator {src} on nested function", s)
        if key not in self.contracts:
            raise Unsupported(f"nested function {key} has no contract", s)
        c = self.contracts[key]
        if bool(c.memo) != bool(memo):
            # contract says memoised but the code is not (or vice versa): the memo ghost never changes
            self.memo_mismatch[key] = bool(memo)
        yield Outcome("next", st.set_var(s.name, V(T.FUN, FunV("contract", key=key, name=s.name, self_v=None))))

    ex_AsyncFunctionDef = ex_FunctionDef

    # ------------------------------------------------------------------ try / with
    def exc_matches(self, exc, handler_type_node, st):
        """-> 'yes' | 'no' | 'maybe'"""
        if handler_type_node is None:
            return "yes"
        sink = []
        classes = []
        for _, v in self.evx(handler_type_node, st, sink):
            if v.ty is T.PY and isinstance(v.z, type):
                classes = [v.z]
            elif v.ty is T.PY and isinstance(v.z, tuple):
                classes = list(v.z)
            else:
                raise Unsupported("except clause type", handler_type_node)
        if any(issubclass(exc.cls, c) for c in classes):
            return "yes"
        if not exc.exact and any(issubclass(c, exc.cls) for c in classes):
            return "maybe"
        return "no"

    def ex_Try(self, s, st):
        def handle(o):
            """outcome of the try body -> outcomes after handlers/else (before finally)"""
            if o.kind == "next":
                yield from self.exec_block(s.orelse, o.st) if s.orelse else iter([o])
                return
            if o.kind != "raise":
                yield o
                return
            exc = o.val
            for h in s.handlers:
                m = self.exc_matches(exc, h.type, o.st)
                if m == "no":
                    continue
                hst = o.st.clone(cur_exc=exc)
                if h.name:
                    hst = hst.set_var(h.name, V(EXC, exc))
                self.cover(h, "handler")
                for ho in self.exec_block(h.body, hst):
                    yield Outcome(ho.kind, ho.st.clone(cur_exc=o.st.cur_exc), ho.val)
                if m == "yes":
                    return
            yield o

        for o in self.exec_block(s.body, st):
            for o2 in handle(o):
                if not s.finalbody:
                    yield o2
                    continue
                for fo in self.exec_block(s.finalbody, o2.st):
                    if fo.kind == "next":
                        yield Outcome(o2.kind, fo.st, o2.val)
                    else:
                        yield fo  # finally diverted control

    ex_TryStar = None

    def ex_With(self, s, st):
        yield from self.with_items(s.items, s.body, st, s)

    def ex_AsyncWith(self, s, st):
        raise Unsupported("async with", s)

    def with_items(self, items, body, st, s):
        if not items:
            yield from self.exec_block(body, st)
            return
        item = items[0]
        sink = []
        for st1, cm in self.evx(item.context_expr, st, sink):
            h = self.ctx_manager(cm, s)
            for eo in h.enter(self, cm, st1, s):
                if eo.kind != "next":
                    yield eo
                    continue
                st2 = eo.st
                if item.optional_vars is not None:
                    sts = self.assign(item.optional_vars, eo.val, st2, sink)
                else:
                    sts = [st2]
                for st3 in sts:
                    for o in self.with_items(items[1:], body, st3, s):
                        yield from h.exit(self, cm, o, s)
        yield from self._flush(sink)

    def ctx_manager(self, cm, s):
        if isinstance(cm.ty, T.ObjT):
            return ObjCtx()
        if cm.ty.name in self.ctx_hooks:
            return self.ctx_hooks[cm.ty.name]
        if cm.ty is T.PY and isinstance(cm.z, tuple) and cm.z and cm.z[0] in self.ctx_hooks:
            return self.ctx_hooks[cm.z[0]]
        raise Unsupported(f"context manager of type {cm.ty}", s)

    # ------------------------------------------------------------------ loops
    def loop_spec(self, s):
        c = self.current
        self.loop_counter += 1
        idx = self.loop_ordinal.get(id(s))
        if idx is None:
            raise Unsupported("loop not registered", s)
        ls = c.loops.get(idx)
        if ls is None:
            ls = Loop()
        return idx, ls

    def loop_modifies(self, s, st):
        """syntactic over-approximation of what the loop body may change: (names, heap keys, ghost names)"""
        names = set(assigned_names(s.body + s.orelse))
        heap, ghost = set(), set()

        def add_contract(c):
            for m in c.modifies:
                m = m.strip()
                if m.startswith("ghost:"):
                    ghost.add(m[6:])
                elif "." in m:
                    base, field = m.rsplit(".", 1)
                    hit = False
                    for cname, decl in self.classes.items():
                        if field in decl.fields:
                            heap.add((cname, field))
                            hit = True
                    if not hit:
                        raise SpecError(f"modifies {m}: no class declares field {field}")
                elif m in self.ghost_decl:
                    ghost.add(m)
                else:
                    names.add(m)

        for node in ast.walk(ast.Module(body=s.body + s.orelse, type_ignores=[])):
            if isinstance(node, (ast.Assign, ast.AugAssign, ast.Delete, ast.AnnAssign)):
                tgts = node.targets if isinstance(node, (ast.Assign, ast.Delete)) else [node.target]
                for t in tgts:
                    self._mod_target(t, names, heap, st)
            elif isinstance(node, ast.Subscript) and isinstance(node.ctx, ast.Load):
                # reading a defaultdict may insert
                self._mod_target(node, names, heap, st, read=True)
            elif isinstance(node, ast.Call):
                f = node.func
                if isinstance(f, ast.Attribute) and f.attr in MUTATORS:
                    self._mod_target(f.value, names, heap, st, whole=True)
                for key in self.callee_keys(node, st):
                    add_contract(self.contracts[key])
            elif isinstance(node, ast.Await):
                for hk in self.async_shared:
                    heap.add(hk)
                for g in self.async_ghost:
                    ghost.add(g)
        return names, heap, ghost

    def _mod_target(self, t, names, heap, st, whole=False, read=False):
        root = t
        while isinstance(root, (ast.Subscript,)):
            root = root.value
        if isinstance(root, ast.Name):
            if not read or whole or root is not t:
                names.add(root.id)
            alias = st.meta.get("alias", {}).get(root.id)
            if alias is not None:
                self._mod_target(alias, names, heap, st, whole=True)
        elif isinstance(root, ast.Attribute):
            for cname, decl in self.classes.items():
                if root.attr in decl.fields:
                    heap.add((cname, root.attr))
        elif isinstance(root, (ast.Tuple, ast.List)):
            for e in root.elts:
                self._mod_target(e, names, heap, st)

    def callee_keys(self, call, st):
        """contract keys a call expression may dispatch to (syntactic, conservative)"""
        f = call.func
        out = []
        if isinstance(f, ast.Name):
            v = st.env.get(f.id)
            if v is not None and v.ty is T.FUN and isinstance(v.z, FunV):
                out.extend(self.funv_keys(v.z))
            elif v is None:
                obj = self.globals_of_current.get(f.id)
                c = self.contract_for_pyobj(obj) if obj is not None else None
                if c is not None:
                    out.append(c.key)
        elif isinstance(f, ast.Attribute):
            rty = self.static_type(f.value, st)
            if isinstance(rty, T.Opt):
                rty = rty.elem
            if isinstance(rty, T.ObjT):
                k = self.method_key(rty.cls, f.attr)
                if k is not None:
                    return [k]
                if (rty.name, f.attr) in self.method_rules:
                    return []
            if rty is not None and rty not in (T.PY, T.FUN) and not isinstance(rty, T.ObjT):
                return []       # method of a modelled builtin value: handled by the mutator scan
            for key, c in self.contracts.items():
                if key.endswith("." + f.attr) and not key.startswith(("refine:", "dispatch:")):
                    out.append(key)
        return out

    def static_type(self, node, st):
        """static type of a Name / attribute chain without evaluating it (None when unknown)"""
        if isinstance(node, ast.Name):
            v = st.env.get(node.id)
            return v.ty if v is not None else None
        if isinstance(node, ast.Attribute):
            bt = self.static_type(node.value, st)
            if isinstance(bt, T.Opt):
                bt = bt.elem
            if isinstance(bt, T.ObjT):
                f = self.find_field(bt.cls, node.attr)
                if f is not None and f[0] in ("field", "const") and isinstance(f[2], T.Ty):
                    return f[2]
        return None

    def funv_keys(self, fz):
        if fz.kind == "contract":
            return [fz.key]
        if fz.kind == "partial":
            return self.funv_keys(fz.func.z) if fz.func.ty is T.FUN else \
                ([self.contract_for_pyobj(fz.func.z).key] if self.contract_for_pyobj(fz.func.z) else [])
        if fz.kind == "choice":
            out = []
            for _, g in fz.alts:
                if g.ty is T.FUN:
                    out.extend(self.funv_keys(g.z))
                else:
                    c = self.contract_for_pyobj(g.z)
                    if c:
                        out.append(c.key)
            return out
        return []

    def havoc_loop(self, st, names, heap, ghost, s):
        for nm in sorted(names):
            if nm in st.env:
                v = st.env[nm]
                if v.ty in (T.FUN,):
                    continue
                if v.ty in (T.PY, EXC):
                    dt = self.declared_type(nm)
                    if dt is None:
                        raise Unsupported(f"loop modifies {nm} whose value is a concrete python object; declare its type", s)
                    v = self.coerce(v, dt, s)
                nv, st = self.fresh(v.ty, nm, st)
                st = st.set_var(nm, nv)
        for (cname, field) in sorted(heap):
            fty = self.classes[cname].fields[field]
            arr = z3.FreshConst(z3.ArraySort(self.objT(cname).sort(), fty.sort()), f"{cname}.{field}")
            st = self.assume_heap_inv(st.set_heap((cname, field), arr), cname, field, fty)
        for g in sorted(ghost):
            nv, st = self.fresh(self.ghost_decl[g], g, st)
            st = st.set_ghost(g, nv)
        return st

    def check_inv(self, ls, idx, st, env, kind, s, entry):
        for i, inv in enumerate(ls.inv):
            goal = self.spec(inv, st, env=env, old=st.old)
            self.emit(kind, f"loop{idx}#inv{i + 1}", s, st, goal, note=inv if isinstance(inv, str) else "",
                      serves=ls.serves)

    def assume_inv(self, ls, st, env):
        zs = [self.spec(inv, st, env=env, old=st.old) for inv in ls.inv]
        return st.assume(*zs)

    def ex_For(self, s, st):
        idx, ls = self.loop_spec(s)
        sink = []
        for st1, coll in self.evx(s.iter, st, sink):
            yield from self.for_each(s, idx, ls, coll, st1)
        yield from self._flush(sink)

    def ex_AsyncFor(self, s, st):
        raise Unsupported("async for", s)

    def for_each(self, s, idx, ls, coll, st):
        # concrete python iterables (module constants) are unrolled
        if coll.ty is T.PY and isinstance(coll.z, (tuple, list, dict)) and not (
                isinstance(coll.z, tuple) and coll.z and coll.z[0] in ("pytuple", "universe", "range", "enumerate",
                                                                        "items")):
            items = list(coll.z.keys()) if isinstance(coll.z, dict) else list(coll.z)
            yield from self.unrolled(s, items, st)
            return
        if coll.ty is T.PY and isinstance(coll.z, tuple) and len(coll.z) == 2 and coll.z[0] == "pytuple":
            yield from self.unrolled(s, list(coll.z[1]), st, wrapped="values")
            return
        if coll.ty is T.PY and isinstance(coll.z, tuple) and coll.z and coll.z[0] == "pyitems":
            yield from self.unrolled(s, [("pytuple", (self.lift(k), self.lift(v))) for k, v in coll.z[1]], st,
                                     wrapped=True)
            return
        if coll.ty is T.PY and isinstance(coll.z, tuple) and coll.z and coll.z[0] in ("range", "enumerate"):
            yield from self.for_indexed(s, idx, ls, coll, st)
            return
        if isinstance(coll.ty, T.ListT) and ls.it is not None:
            yield from self.for_indexed(s, idx, ls, V(T.PY, ("seq", coll)), st)
            return
        if hasattr(coll.ty, "py_suffix_iter"):
            yield from self.for_suffix(s, idx, ls, coll, st)
            return
        ety, member, unique = self.iter_view(coll, st, s)
        # the element actually bound may be derived (dict.items(): (k, d[k]))
        derive = getattr(coll, "derive", None)
        seen_name = ls.seen or f"__seen{idx}"
        sty = T.SetT(ety)
        entry = st
        env0 = {seen_name: V(sty, sty.empty())}
        self.check_inv(ls, idx, st, env0, "inv-init", s, entry)
        names, heap, ghost = self.loop_modifies(s, st)
        names -= assigned_names([ast.Expr(value=s.target)]) if False else set()
        head = self.havoc_loop(st, names, heap, ghost, s)
        seen, head = self.fresh(sty, seen_name, head)
        x0 = ety.fresh("x")
        head = head.assume(z3.ForAll([x0], z3.Implies(z3.Select(seen.z, x0), member(x0))))
        head = head.set_var(seen_name, seen)
        head = self.assume_inv(ls, head, {})
        # --- one arbitrary iteration
        x = ety.fresh("cur")
        xinv = ety.inv(x)
        it = head.assume(member(x), xinv, *([z3.Not(z3.Select(seen.z, x))] if unique else []))
        if self.feasible(it, z3.BoolVal(True)):
            elem = self.iter_elem(coll, V(ety, x), it)
            sink = []
            sts = self.assign(s.target, elem, it, sink)
            yield from self._flush(sink)
            for b in sts:
                for o in self.exec_block(s.body, b):
                    if o.kind in ("next", "continue"):
                        env1 = {seen_name: V(sty, z3.Store(seen.z, x, True))}
                        self.check_inv(ls, idx, o.st, env1, "inv-preserve", s, entry)
                    elif o.kind == "break":
                        yield Outcome("next", self.drop_loop_names(o.st, seen_name))
                    else:
                        yield o
        # --- exit: every element processed
        ex = head.assume(z3.ForAll([x0], z3.Implies(member(x0), z3.Select(seen.z, x0))))
        ex = self.drop_loop_names(ex, seen_name)
        ex = self.unbind(ex, assigned_names([ast.Expr(value=s.target)]) | self._target_names(s.target))
        if s.orelse:
            yield from self.exec_block(s.orelse, ex)
        else:
            yield Outcome("next", ex)

    def iter_elem(self, coll, x, st):
        if hasattr(coll.ty, "py_iter_elem"):
            return coll.ty.py_iter_elem(self, coll, x, st)
        if coll.ty.name in self.iter_elem_hooks:
            return self.iter_elem_hooks[coll.ty.name](self, coll, x, st)
        return x

    def drop_loop_names(self, st, seen_name, keep_as=None):
        e = dict(st.env)
        e.pop(seen_name, None)
        return st.clone(env=e)

    def _target_names(self, t):
        return {x.id for x in ast.walk(t) if isinstance(x, ast.Name)}

    def unbind(self, st, names):
        e = dict(st.env)
        for nm in names:
            e.pop(nm, None)
        return st.clone(env=e)

    def unrolled(self, s, items, st, wrapped=False):
        def rec(i, st):
            if i == len(items):
                if s.orelse:
                    yield from self.exec_block(s.orelse, st)
                else:
                    yield Outcome("next", st)
                return
            sink = []
            v = items[i] if wrapped == "values" else (V(T.PY, items[i]) if wrapped else self.lift(items[i]))
            for b in self.assign(s.target, v, st, sink):
                for o in self.exec_block(s.body, b):
                    if o.kind in ("next", "continue"):
                        yield from rec(i + 1, o.st)
                    elif o.kind == "break":
                        yield Outcome("next", o.st)
                    else:
                        yield o
            yield from self._flush(sink)

        if len(items) > 64:
            raise Unsupported("unrolling a constant iterable longer than 64", s)
        yield from rec(0, st)

    def for_indexed(self, s, idx, ls, coll, st):
        """range(a, b, step) / enumerate(seq) / seq with a position ghost"""
        kind = coll.z[0]
        it_name = ls.it or f"__it{idx}"
        if kind == "range":
            start, stop, step = coll.z[1]
            if not (z3.is_int_value(step) and step.as_long() > 0):
                pos = step > 0
                self.emit("pre@call", "range#step>0", s, st, pos)
                st = st.assume(pos)
            init, cont = start, (lambda i: i < stop)
            nxt = lambda i: i + step
            elem = lambda i, stx: V(T.INT, i)
        elif kind == "enumerate" and coll.z[1].ty is T.PY and isinstance(coll.z[1].z, tuple) and coll.z[1].z[0] == "strgen":
            # enumerate(<expr(char) for char in text>): position i, element expr(text[i])
            _, gen, genv, text = coll.z[1].z
            init, cont = z3.IntVal(0), (lambda i: i < z3.Length(text.z))
            nxt = lambda i: i + 1

            def elem(i, stx):
                sk2 = []
                e2 = dict(genv)
                st_in = self.bind_target(gen.generators[0].target, V(T.STR, self.char_at(text.z, i)), stx.clone(env=e2), s)
                rs = list(self.evx(gen.elt, st_in, sk2))
                if len(rs) != 1 or sk2:
                    raise Unsupported("generator element forks or raises", s)
                return self.mk_tuple([V(T.INT, i), rs[0][1]])
        else:
            seq = coll.z[1]
            if not isinstance(seq.ty, T.ListT):
                raise Unsupported("enumerate over non-sequence", s)
            init, cont = z3.IntVal(0), (lambda i: i < z3.Length(seq.z))
            nxt = lambda i: i + 1
            if kind == "enumerate":
                elem = lambda i, stx: self.mk_tuple([V(T.INT, i), V(seq.ty.elem, seq.z[i])])
            else:
                elem = lambda i, stx: V(seq.ty.elem, seq.z[i])
        entry = st
        self.check_inv(ls, idx, st, {it_name: V(T.INT, init)}, "inv-init", s, entry)
        names, heap, ghost = self.loop_modifies(s, st)
        head = self.havoc_loop(st, names, heap, ghost, s)
        i = z3.FreshConst(z3.IntSort(), it_name)
        head = head.set_var(it_name, V(T.INT, i))
        head = self.assume_inv(ls, head, {})
        if kind == "range":
            k = z3.FreshConst(z3.IntSort(), "k")
            head = head.assume(k >= 0, i == start + k * step)
        else:
            head = head.assume(i >= 0)
        body_st = head.assume(cont(i))
        if self.feasible(body_st, z3.BoolVal(True)):
            sink = []
            for b in self.assign(s.target, elem(i, body_st), body_st, sink):
                for o in self.exec_block(s.body, b):
                    if o.kind in ("next", "continue"):
                        self.check_inv(ls, idx, o.st, {it_name: V(T.INT, nxt(i))}, "inv-preserve", s, entry)
                    elif o.kind == "break":
                        yield Outcome("next", self.drop_loop_names(o.st, it_name))
                    else:
                        yield o
            yield from self._flush(sink)
        ex = self.drop_loop_names(head.assume(z3.Not(cont(i))), it_name)
        if s.orelse:
            yield from self.exec_block(s.orelse, ex)
        else:
            yield Outcome("next", ex)

    def char_at(self, text, i):
        """the i-th character of a string as an opaque term (no string theory needed to talk about 'some character')"""
        if not hasattr(self, "_char_at"):
            self._char_at = z3.Function("char_at", z3.StringSort(), z3.IntSort(), z3.StringSort())
        return self._char_at(text, i)

    def for_suffix(self, s, idx, ls, coll, st):
        """iteration over an algebraic cons-list: the invariant speaks about the remaining suffix `rest`"""
        ty = coll.ty
        rest_name = ls.it or f"__rest{idx}"
        lty, is_nil, head_of, tail_of, elem_of = ty.py_suffix_iter(self, coll)
        start = ty.py_suffix_start(coll) if hasattr(ty, "py_suffix_start") else coll.z
        entry = st
        self.check_inv(ls, idx, st, {rest_name: V(lty, start)}, "inv-init", s, entry)
        names, heap, ghost = self.loop_modifies(s, st)
        hd = self.havoc_loop(st, names, heap, ghost, s)
        rest = lty.fresh(rest_name)
        hd = hd.set_var(rest_name, V(lty, rest))
        hd = self.assume_inv(ls, hd, {})
        body_st = hd.assume(z3.Not(is_nil(rest)))
        if self.feasible(body_st, z3.BoolVal(True)):
            sink = []
            for b in self.assign(s.target, elem_of(self, head_of(rest), body_st), body_st, sink):
                for o in self.exec_block(s.body, b):
                    if o.kind in ("next", "continue"):
                        self.check_inv(ls, idx, o.st, {rest_name: V(lty, tail_of(rest))}, "inv-preserve", s, entry)
                    elif o.kind == "break":
                        yield Outcome("next", self.drop_loop_names(o.st, rest_name))
                    else:
                        yield o
            yield from self._flush(sink)
        ex = self.drop_loop_names(hd.assume(is_nil(rest)), rest_name)
        ex = self.unbind(ex, self._target_names(s.target))
        if s.orelse:
            yield from self.exec_block(s.orelse, ex)
        else:
            yield Outcome("next", ex)

    def ex_While(self, s, st):
        idx, ls = self.loop_spec(s)
        entry = st
        self.check_inv(ls, idx, st, {}, "inv-init", s, entry)
        names, heap, ghost = self.loop_modifies(s, st)
        head = self.havoc_loop(st, names, heap, ghost, s)
        head = self.assume_inv(ls, head, {})
        measure0 = None
        if ls.decreases is not None:
            measure0 = self.spec(ls.decreases, head, want_bool=False)
        sink = []
        for st1, c in self.evx(s.test, head, sink):
            t = self.truthy(c, s)
            if self.feasible(st1, t):
                for o in self.exec_block(s.body, st1.assume(t)):
                    if o.kind in ("next", "continue"):
                        self.check_inv(ls, idx, o.st, {}, "inv-preserve", s, entry)
                        if measure0 is not None:
                            m1 = self.spec(ls.decreases, o.st, want_bool=False)
                            self.emit("decreases", f"loop{idx}", s, o.st, z3.And(m1.z < measure0.z, measure0.z >= 0))
                    elif o.kind == "break":
                        yield Outcome("next", o.st)
                    else:
                        yield o
            if self.feasible(st1, z3.Not(t)):
                ex = st1.assume(z3.Not(t))
                if s.orelse:
                    yield from self.exec_block(s.orelse, ex)
                else:
                    yield Outcome("next", ex)
        yield from self._flush(sink)


class ObjCtx:
    """`with obj:` for an object whose class has contracted __enter__/__exit__"""

    def enter(self, eng, cm, st, s):
        key = eng.method_key(cm.ty.cls, "__enter__")
        if key is None:
            raise Unsupported(f"{cm.ty.cls}.__enter__ has no contract", s)
        sink = []
        for st1, v in eng.call_contract(eng.contracts[key], [cm], {}, st, sink, s):
            yield Outcome("next", st1, v)
        for est, exc in sink:
            yield Outcome("raise", est, exc)

    def exit(self, eng, cm, o, s):
        key = eng.method_key(cm.ty.cls, "__exit__")
        if key is None:
            raise Unsupported(f"{cm.ty.cls}.__exit__ has no contract", s)
        sink = []
        # __exit__(self, *exc): arguments are abstracted; the contract may not depend on them
        for st1, v in eng.call_contract(eng.contracts[key], [cm], {}, o.st, sink, s):
            # a contracted __exit__ returning None never swallows the exception
            yield Outcome(o.kind, st1, o.val)
        for est, exc in sink:
            yield Outcome("raise", est, exc)

"""Translation of Python regular expressions (literal patterns found in the verified source) to z3 regexes,
with re.match / re.fullmatch semantics made explicit: `$` matches at the end and before a trailing newline."""
import re._parser as sre
import re._constants as C
import z3

S = z3.StringSort()
ANY = z3.AllChar(z3.ReSort(S))


def _cls(items):
    parts, neg = [], False
    for op, av in items:
        if op is C.NEGATE:
            neg = True
        elif op is C.LITERAL:
            parts.append(z3.Re(chr(av)))
        elif op is C.RANGE:
            parts.append(z3.Range(chr(av[0]), chr(av[1])))
        elif op is C.CATEGORY:
            parts.append(_category(av))
        else:
            raise NotImplementedError(f"regex class item {op}")
    r = parts[0] if len(parts) == 1 else z3.Union(*parts)
    if neg:
        r = z3.Intersect(ANY, z3.Complement(r))
    return r


def _category(av):
    if av is C.CATEGORY_DIGIT:
        return z3.Range("0", "9")      # ASCII digits (Unicode digits are not distinguished)
    if av is C.CATEGORY_WORD:
        return z3.Union(z3.Range("a", "z"), z3.Range("A", "Z"), z3.Range("0", "9"), z3.Re("_"))
    if av is C.CATEGORY_SPACE:
        return z3.Union(*[z3.Re(c) for c in " \t\n\r\f\v"])
    raise NotImplementedError(f"regex category {av}")


def _seq(items):
    """-> (z3 regex, ends_with_dollar)"""
    rs, dollar = [], False
    for i, (op, av) in enumerate(items):
        if op is C.AT:
            if av is C.AT_BEGINNING and i == 0:
                continue
            if av is C.AT_END and i == len(items) - 1:
                dollar = True
                continue
            if av is C.AT_END_STRING and i == len(items) - 1:
                dollar = "Z"
                continue
            raise NotImplementedError("anchor in the middle of a pattern")
        if op is C.LITERAL:
            rs.append(z3.Re(chr(av)))
        elif op is C.IN:
            rs.append(_cls(av))
        elif op is C.ANY:
            rs.append(z3.Intersect(ANY, z3.Complement(z3.Re("\n"))))
        elif op in (C.MAX_REPEAT, C.MIN_REPEAT):
            lo, hi, sub = av
            r, d = _seq(sub)
            if d:
                raise NotImplementedError("anchor inside repetition")
            if lo == 0 and hi is C.MAXREPEAT:
                rs.append(z3.Star(r))
            elif lo == 1 and hi is C.MAXREPEAT:
                rs.append(z3.Plus(r))
            elif lo == 0 and hi == 1:
                rs.append(z3.Option(r))
            else:
                rs.append(z3.Loop(r, lo, 0 if hi is C.MAXREPEAT else hi))
        elif op is C.SUBPATTERN:
            r, d = _seq(av[3])
            if d:
                raise NotImplementedError("anchor inside group")
            rs.append(r)
        elif op is C.CATEGORY:
            rs.append(_category(av))
        else:
            raise NotImplementedError(f"regex construct {op}")
    if not rs:
        r = z3.Re("")
    else:
        r = rs[0] if len(rs) == 1 else z3.Concat(*rs)
    return r, dollar


def match_regex(pattern):
    """regex R such that  re.match(pattern, s) is not None  <=>  s in R"""
    r, dollar = _seq(list(sre.parse(pattern)))
    if dollar is True:
        return z3.Concat(r, z3.Option(z3.Re("\n")))       # `$`: end of string or just before a trailing newline
    if dollar == "Z":
        return r
    return z3.Concat(r, z3.Star(ANY))


def fullmatch_regex(pattern):
    r, dollar = _seq(list(sre.parse(pattern)))
    if dollar is True:
        return z3.Concat(r, z3.Option(z3.Re("\n")))
    return r

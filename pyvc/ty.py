"""pyvc type descriptors: every static type maps to exactly one z3 sort.

The verifier is typed (types come from the sidecar contracts); Python's dynamic
typing is not modelled beyond what the descriptors below say.
"""
import z3

_cache = {}


def _memo(key, mk):
    if key not in _cache:
        _cache[key] = mk()
    return _cache[key]


class Ty:
    name = "?"

    def sort(self):
        raise NotImplementedError

    def fresh(self, hint="v"):
        return z3.FreshConst(self.sort(), hint)

    def inv(self, z):
        """type invariant assumed of every freshly introduced value (or None)"""
        return None

    def __repr__(self):
        return self.name

    def __eq__(self, o):
        return isinstance(o, Ty) and self.name == o.name

    def __hash__(self):
        return hash(self.name)


class _Prim(Ty):
    def __init__(self, name, mk):
        self.name, self._mk = name, mk

    def sort(self):
        return self._mk()


INT = _Prim("Int", z3.IntSort)
BOOL = _Prim("Bool", z3.BoolSort)
REAL = _Prim("Real", z3.RealSort)
STR = _Prim("Str", z3.StringSort)


class _NoneT(Ty):
    name = "None"

    def sort(self):
        return _memo("NoneSort", lambda: z3.EnumSort("NoneT", ["none_v"]))[0]

    def value(self):
        self.sort()
        return _cache["NoneSort"][1][0]


NONE = _NoneT()


class Atom(Ty):
    """uninterpreted sort (paths, names, job ids, hashes ... at the abstract level)"""

    def __init__(self, name):
        self.name = name

    def sort(self):
        return _memo(("atom", self.name), lambda: z3.DeclareSort(self.name))


class EnumT(Ty):
    """finite sort built from a real Python Enum class (read from the module under check)"""

    def __init__(self, pycls):
        self.pycls = pycls
        self.name = "Enum_" + pycls.__name__
        self.members = [m.name for m in pycls]

    def _mk(self):
        # member constants carry the class name: two enums may share member names (cvc5 rejects overloads)
        return z3.EnumSort(self.name, [f"{self.pycls.__name__}.{m}" for m in self.members])

    def sort(self):
        return _memo(("enum", self.name, tuple(self.members)), self._mk)[0]

    def const(self, member_name):
        self.sort()
        consts = _cache[("enum", self.name, tuple(self.members))][1]
        return consts[self.members.index(member_name)]


class NamedEnum(Ty):
    """finite sort given by a list of member names (spec-only enums)"""

    def __init__(self, name, members):
        self.name, self.members = name, list(members)

    def sort(self):
        return _memo(("nenum", self.name), lambda: z3.EnumSort(self.name, self.members))[0]

    def const(self, member_name):
        self.sort()
        return _cache[("nenum", self.name)][1][self.members.index(member_name)]


class Opt(Ty):
    def __init__(self, elem):
        self.elem = elem
        self.name = f"Opt_{elem.name}"

    def _mk(self):
        d = z3.Datatype(self.name)
        d.declare("none_" + self.name)
        d.declare("some_" + self.name, ("val_" + self.name, self.elem.sort()))
        return d.create()

    def sort(self):
        return _memo(("opt", self.name), self._mk)

    def none(self):
        return getattr(self.sort(), "none_" + self.name)

    def some(self, z):
        return getattr(self.sort(), "some_" + self.name)(z)

    def is_none(self, z):
        return getattr(self.sort(), "is_none_" + self.name)(z)

    def get(self, z):
        return getattr(self.sort(), "val_" + self.name)(z)

    def inv(self, z):
        i = self.elem.inv(self.get(z))
        return None if i is None else z3.Implies(z3.Not(self.is_none(z)), i)


class SetT(Ty):
    def __init__(self, elem):
        self.elem = elem
        self.name = f"Set_{elem.name}"

    def sort(self):
        return z3.ArraySort(self.elem.sort(), z3.BoolSort())

    def empty(self):
        return z3.K(self.elem.sort(), z3.BoolVal(False))


class ListV(Ty):
    """list seen as (set of elements, length): enough for truthiness, len, `in`,
    append and for-each; order and multiplicity are abstracted (every order and every
    multiplicity consistent with the view is covered)."""

    def __init__(self, elem):
        self.elem = elem
        self.name = f"ListV_{elem.name}"

    def _mk(self):
        d = z3.Datatype(self.name)
        d.declare("mk_" + self.name, ("elems_" + self.name, z3.ArraySort(self.elem.sort(), z3.BoolSort())),
                  ("len_" + self.name, z3.IntSort()))
        return d.create()

    def sort(self):
        return _memo(("listv", self.name), self._mk)

    def mk(self, elems, n):
        return getattr(self.sort(), "mk_" + self.name)(elems, n)

    def elems(self, z):
        return getattr(self.sort(), "elems_" + self.name)(z)

    def len(self, z):
        return getattr(self.sort(), "len_" + self.name)(z)

    def inv(self, z):
        e = z3.K(self.elem.sort(), z3.BoolVal(False))
        return z3.And(self.len(z) >= 0, (self.len(z) == 0) == (self.elems(z) == e))


class ListT(Ty):
    """list as a z3 sequence (order and indices matter)"""

    def __init__(self, elem):
        self.elem = elem
        self.name = f"Seq_{elem.name}"

    def sort(self):
        return z3.SeqSort(self.elem.sort())


class DictT(Ty):
    def __init__(self, key, val):
        self.key, self.val = key, val
        self.name = f"Dict_{key.name}_{val.name}"

    def _mk(self):
        d = z3.Datatype(self.name)
        d.declare("mk_" + self.name, ("dom_" + self.name, z3.ArraySort(self.key.sort(), z3.BoolSort())),
                  ("val_" + self.name, z3.ArraySort(self.key.sort(), self.val.sort())))
        return d.create()

    def sort(self):
        return _memo(("dict", self.name), self._mk)

    def mk(self, dom, val):
        return getattr(self.sort(), "mk_" + self.name)(dom, val)

    def dom(self, z):
        return getattr(self.sort(), "dom_" + self.name)(z)

    def vals(self, z):
        return getattr(self.sort(), "val_" + self.name)(z)

    def empty(self):
        return self.mk(z3.K(self.key.sort(), z3.BoolVal(False)),
                       z3.FreshConst(z3.ArraySort(self.key.sort(), self.val.sort()), "emptyvals"))


class MapT(Ty):
    """total map (spec-level / ghost): a z3 array"""

    def __init__(self, key, val):
        self.key, self.val = key, val
        self.name = f"Map_{key.name}_{val.name}"

    def sort(self):
        return z3.ArraySort(self.key.sort(), self.val.sort())


class TupT(Ty):
    def __init__(self, *elems):
        self.elems = list(elems)
        self.name = "Tup_" + "_".join(e.name for e in elems)

    def _mk(self):
        d = z3.Datatype(self.name)
        d.declare("mk_" + self.name, *[(f"f{i}_{self.name}", e.sort()) for i, e in enumerate(self.elems)])
        return d.create()

    def sort(self):
        return _memo(("tup", self.name), self._mk)

    def mk(self, *zs):
        return getattr(self.sort(), "mk_" + self.name)(*zs)

    def get(self, z, i):
        return getattr(self.sort(), f"f{i}_{self.name}")(z)


class ObjT(Ty):
    """reference to an object of a class; fields live in the heap (or are constant functions)"""

    def __init__(self, cls, root=None):
        self.cls = cls
        self.root = root or cls          # classes of one hierarchy share the sort of their root
        self.name = "Obj_" + cls

    def sort(self):
        return _memo(("obj", "Obj_" + self.root), lambda: z3.DeclareSort("Obj_" + self.root))


class DataT(Ty):
    """a z3 algebraic datatype declared by the vocabulary (e.g. Tree)"""

    def __init__(self, name, sort):
        self.name, self._sort = name, sort

    def sort(self):
        return self._sort


class FunT(Ty):
    """Python-level callable (closure, bound method, partial); never stored in z3 terms"""
    name = "Fun"

    def sort(self):
        raise TypeError("callables have no sort")


FUN = FunT()


class PyT(Ty):
    """a concrete Python object known at verification time (module constant, class, module)"""
    name = "Py"

    def sort(self):
        raise TypeError("concrete python objects have no sort")


PY = PyT()

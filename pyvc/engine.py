"""pyvc engine: registries, the per-function verification driver, obligation discharge."""
import ast
import time
import collections
import z3
from . import ty as T
from .core import (V, Exc, EXC, FunV, State, Outcome, Obligation, Unsupported, SpecError, Contract, ClassDecl, Loop,
                   lineno, parse_spec)
from .expr import ExprMixin, zand, zor
from .calls import CallMixin
from .stmt import StmtMixin, assigned_names
from .front import Front, strip_docstring, loops_in_order


class FnRef:
    """parameter type marker: a callable argument that obeys the named (interface) contract"""

    def __init__(self, key):
        self.key = key
        self.name = "Fn<" + key + ">"


class Engine(ExprMixin, CallMixin, StmtMixin):
    def __init__(self, src_root="/repo/src"):
        self.front = Front(src_root)
        self.package = "gwf"             # functions of this package without a contract are inlined at call sites
        self.contracts = {}
        self.classes = {}
        self.vocab = {}
        self.spec_consts = {}
        self.universes = {}
        self.ghost_decl = {}
        self.rules = {}
        self.raw_rules = {}
        self.unpack_rules = {}
        self.unpack_hooks = {}
        self.method_rules = {}
        self.truthy_hooks = {}
        self.str_hooks = {}
        self.attr_hooks = {}
        self.contains_hooks = {}
        self.subscript_hooks = {}
        self.iter_hooks = {}
        self.iter_elem_hooks = {}
        self.delitem_hooks = {}
        self.ctx_hooks = {}
        self.store_monitors = {}
        self.coerce_hooks = {}
        self.strgen_hooks = {}
        self.eq_hooks = {}
        self.str_atoms = {}
        self.opaque_defs = {}
        self.arg_hooks = {}
        self.exc_names = {}
        self.axioms = []
        self.axiom_groups = collections.defaultdict(list)
        self.async_model = None
        self.async_shared = []
        self.async_ghost = []
        self.lemmas = {}
        self._tycache = {}
        self._interned = {}
        self.INF = z3.Real("INF")
        self.axioms.append(self.INF > 0)
        self._prune_solver = z3.Solver()
        self.stats = collections.Counter()
        self.max_stmts = 200000
        self.lenient = False
        self.current = None
        self.dropped = set()
        self.called = set()
        self.covered = set()
        self.memo_mismatch = {}
        self.globals_of_current = {}
        self.replayers = {}
        self.enumerators = []      # property-level bounded refuters (replay only): dict(name, props, scope, run)
        self.refinements = {}
        self.assumptions = collections.defaultdict(list)
        self.bounded_notes = collections.defaultdict(list)
        from . import rules
        rules.install(self)

    # ------------------------------------------------------------------ registration API
    def contract(self, key, **kw):
        uses = kw.pop("uses", ())
        defaults = kw.pop("defaults", None)
        hints = kw.pop("cover_hints", ())
        spawn_ensures = kw.pop("spawn_ensures", None)
        monitors = kw.pop("item_monitors", None)
        ghost_exit = kw.pop("ghost_exit", ())
        log_events = kw.pop("log_events", None)
        cuts = kw.pop("cuts", ())
        defines = kw.pop("defines", ())
        shards = kw.pop("shards", 1)
        c = Contract(key, **kw)
        c.shards = shards
        c.defines = list(defines)
        c.cuts = list(cuts)
        c.ghost_exit = list(ghost_exit)
        c.log_events = log_events
        c.item_monitors = monitors or {}
        c.uses = tuple(uses)
        c.cover_hints = list(hints)
        c.spawn_ensures = dict(spawn_ensures or {})
        c.defaults = defaults
        c._defaults = None
        if key in self.contracts:
            raise SpecError(f"duplicate contract {key}")
        self.contracts[key] = c
        return c

    def refines(self, iface_key, impl, bind, call, closure_requires=(), serves=(), uses=(), extra_requires=(),
                name=None):
        """refinement lemma: the real callable `impl` (with the closure variables `bind`) may be passed where
        a parameter of interface contract `iface_key` is expected. Verified as a one-call stub against the
        interface contract; `closure_requires` are facts about the closure's own variables that must hold
        where the callable is passed (checked there) and are assumed inside the stub."""
        ic = self.contracts[iface_key]
        key = name or f"refine:{impl}=>{iface_key}"
        params = ", ".join(ic.params.keys())
        src = f"def stub({params}):\n    return {call}\n"
        import importlib
        g = {}
        if impl and ":" in impl and not impl.startswith("iface:"):
            mod, _, qn = impl.partition(":")
            m = importlib.import_module(mod)
            g = dict(vars(m))
        c = self.contract(key, params=dict(ic.params), returns=ic.returns, requires=list(ic.requires) + list(extra_requires),
                          ensures=list(ic.ensures), raises=dict(ic.raises), modifies=list(ic.modifies),
                          captures=dict(bind), entry_assume=list(closure_requires), serves=serves, uses=uses,
                          returns_expr=ic.returns_expr)
        c.stub_src, c.stub_globals = src, g
        self.refinements[(impl, iface_key)] = (key, list(closure_requires), list(bind.keys()))
        return c

    def enumerator(self, name, props, scope, run, always=False, crosscheck=False):
        """registers a bounded enumerative refuter: `run(seed, focus)` drives the REAL code on small inputs against
        an oracle written from the property statement and returns a replay dict. Never counted as proof."""
        self.enumerators.append({"name": name, "props": list(props), "scope": list(scope), "run": run,
                                 "always": always, "crosscheck": crosscheck})

    def cls(self, name, **kw):
        d = ClassDecl(name, **kw)
        self.classes[name] = d
        return d

    def finalize_async(self):
        """coroutine functions suspend: everything the rely relation may change is in their frame"""
        shared = [f"{c}.{f}" for (c, f) in self.async_shared] + ["ghost:" + g for g in self.async_ghost]
        for c in self.contracts.values():
            if c.is_async and not getattr(c, "_async_done", False):
                for m in shared:
                    if m not in c.modifies:
                        c.modifies.append(m)
                for spec in c.raises.values():
                    if isinstance(spec, dict) and spec.get("modifies") is not None:
                        for m in shared:
                            if m not in spec["modifies"]:
                                spec["modifies"].append(m)
                c._async_done = True

    def objT(self, cname):
        d = self.classes.get(cname)
        return T.ObjT(cname, root=d.root if d is not None else None)

    def ghost(self, name, ty):
        self.ghost_decl[name] = ty

    def universe(self, name, ty):
        self.universes[name] = ty

    def fn(self, name):
        def deco(f):
            if name in self.vocab:      # two contract modules giving one spec name two meanings (Sort mismatch at best)
                raise SpecError(f"spec function {name!r} is defined twice")
            self.vocab[name] = f
            return f

        return deco

    def opaque(self, name, fdecl, ret_ty, definition):
        """spec function that is an uninterpreted symbol in ordinary obligations and is replaced by its
        definition only where a cut `reveal`s it (keeps string definitions out of quantified queries)"""
        def f(e, st, *args):
            if name in st.meta.get("reveal", ()):
                return V(ret_ty, definition(*[a.z for a in args]))
            return V(ret_ty, fdecl(*[a.z for a in args]))
        self.fn(name)(f)
        self.opaque_defs[name] = (fdecl, definition)

    def axiom(self, group, z):
        self.axiom_groups[group].append(z)

    # ------------------------------------------------------------------ obligations
    def emit(self, kind, label, node, st, goal, note="", serves=None, expect="unsat", uses=None):
        c = self.current
        line = lineno(node) if node is not None else 0
        oid = f"{c.key}:{kind}:{label}@L{line}"
        sv = tuple(serves) if serves else c.serves
        ob = Obligation(oid, kind, label, line, st.pc, goal, c.key, serves=sv, expect=expect, note=note)
        ob.uses = tuple(uses) if uses is not None else None
        self.obligations.append(ob)
        return ob

    def axioms_for(self, c, ob=None):
        out = list(self.axioms)
        groups = ob.uses if ob is not None and getattr(ob, "uses", None) is not None else getattr(c, "uses", ())
        for g in groups:
            if g not in self.axiom_groups:
                raise SpecError(f"{c.key}: unknown axiom group {g}")
            out.extend(self.axiom_groups[g])
        return out

    # ------------------------------------------------------------------ initial state
    def init_state(self, c, node):
        st = State()
        for cname, decl in self.classes.items():
            for f, fty in decl.fields.items():
                arr = z3.FreshConst(z3.ArraySort(self.objT(cname).sort(), fty.sort()), f"{cname}.{f}")
                st = self.assume_heap_inv(st.set_heap((cname, f), arr), cname, f, fty)
        for g, gty in self.ghost_decl.items():
            v, st = self.fresh(gty, g, st)
            st = st.set_ghost(g, v)
        a = node.args if node is not None else None
        if a is not None:
            names = [x.arg for x in a.posonlyargs + a.args + a.kwonlyargs]
            if a.vararg:
                names.append(a.vararg.arg)
            if a.kwarg:
                names.append(a.kwarg.arg)
            extra = [nm for nm in names if nm not in c.params]
            gone = [nm for nm in c.params if nm not in names]
            vnames = {x.arg for x in (a.vararg, a.kwarg) if x is not None}
            for nm in gone:
                # a *args / **kwargs placeholder of the contract that the function now spells out is fine
                if not (extra and c.params[nm] is T.NONE):
                    raise SpecError(f"{c.key}: contract parameter {nm!r} is not a parameter of the real function")
            for nm in extra:
                # a parameter the contract does not know (changed signature, or *exc spelled out as exc_type, exc_value,
                # traceback): an arbitrary value that may or may not be None, so a test `x is None` splits into both
                # branches; any other use of it is outside the subset and reported as such
                c.params[nm] = T.Opt(T.Atom("Unknown"))
            for nm in gone:
                del c.params[nm]
        for nm, pty in list(c.params.items()) + list(c.captures.items()) + list(c.ghost_locals.items()):
            if isinstance(pty, FnRef):
                st = st.set_var(nm, V(T.FUN, FunV("contract", key=pty.key, name=nm, self_v=None)))
            elif isinstance(pty, V):
                st = st.set_var(nm, pty)
            else:
                v, st = self.fresh(pty, nm, st)
                st = st.set_var(nm, v)
        return st

    # ------------------------------------------------------------------ verification of one function
    def verify(self, c):
        """symbolically execute the real body of c.key (or c.body_of) against contract c.
        returns (obligations, info dict)"""
        t0 = time.time()
        self.current = c
        self.obligations = []
        self.covered = set()
        self.called = set()
        self.stats = collections.Counter()
        key = c.body_of or c.key
        stub = getattr(c, "stub_src", None)
        if stub is not None:
            node = ast.parse(stub).body[0]
            self.globals_of_current = dict(getattr(c, "stub_globals", {}))
        else:
            try:
                node = self.front.find(key)
            except KeyError as e:
                # the function the contract is about is gone (renamed, inlined, rewritten): undecided, not an error
                raise Unsupported(f"function under contract not found: {e}")
            self.globals_of_current = self.front.module_globals(key)
        self.current_key_for_nested = key
        self.loop_ordinal = {id(l): i + 1 for i, l in enumerate(loops_in_order(node))}
        for li in c.loops:
            if li > len(self.loop_ordinal):
                # the loop the invariant describes is gone (the function was restructured): undecided, not a checker error
                raise Unsupported(f"{c.key}: contract gives an invariant for loop {li} but the function has "
                                  f"{len(self.loop_ordinal)} loops")
        self.loop_counter = 0
        # sidecar cut points: (statement kind, ordinal in source order) -> cut
        self.cut_at = {}
        if getattr(c, "cuts", None):
            counts = {}
            for sub in ast.walk(node):
                if isinstance(sub, ast.stmt) and sub is not node:
                    pass
            order = []

            def walk(stmts):
                for s_ in stmts:
                    if isinstance(s_, (ast.FunctionDef, ast.AsyncFunctionDef, ast.ClassDef)):
                        continue
                    order.append(s_)
                    for fld in ("body", "orelse", "finalbody"):
                        walk(getattr(s_, fld, []) or [])
                    for h in getattr(s_, "handlers", []) or []:
                        walk(h.body)

            walk(node.body)
            for s_ in order:
                kname = type(s_).__name__
                counts[kname] = counts.get(kname, 0) + 1
                for cut in c.cuts:
                    if tuple(cut["at"]) == (kname, counts[kname]):
                        self.cut_at[id(s_)] = cut
            for cut in c.cuts:
                if not any(v is cut for v in self.cut_at.values()):
                    # the statement the cut is anchored at is gone (the function was restructured): undecided
                    raise Unsupported(f"{c.key}: cut point {cut['at']} does not exist in the function")
        is_async = isinstance(node, ast.AsyncFunctionDef)
        st = self.init_state(c, node)
        entry = st
        st = st.clone(old=entry)
        entry.old = entry
        req = [self.spec(r, st, old=entry) for r in list(c.requires) + list(c.entry_assume)]
        st = st.assume(*req)
        # vacuity guard: the precondition must be satisfiable
        hints = [self.spec(h, st, old=entry) for h in getattr(c, "cover_hints", [])]
        self.emit("cover", "requires-satisfiable", node, st.assume(*hints), z3.BoolVal(False), expect="sat")
        self.entry_measure = None
        if c.decreases is not None:
            self.entry_measure = self.tuple_items(self.spec(c.decreases, st, want_bool=False))
        self.entry_state = st
        body = strip_docstring(node.body)
        decos = [ast.unparse(d).replace(" ", "") for d in node.decorator_list]
        has_lru = any("lru_cache" in d or d in ("cache", "functools.cache") for d in decos)
        for d in decos:
            if "lru_cache" in d and not d.endswith("lru_cache(maxsize=None)") and not d.endswith("lru_cache(None)"):
                # a bounded cache (bare @lru_cache means maxsize=128) can evict an entry and run the body again:
                # "at most once per argument" (the memo semantics used here) would be unsound
                raise Unsupported(f"{c.key}: {d}: only an unbounded cache (maxsize=None) has memo semantics", node)
        outcomes = []
        if c.memo:
            arg = st.env[list(c.params.keys())[0]]
            mset = st.ghost[c.memo]
            inm = z3.Select(mset.z, arg.z)
            if has_lru:
                outcomes.append(Outcome("return", st.assume(inm), self.lift(None)))
                for o in self.exec_block(body, st.assume(z3.Not(inm))):
                    if o.kind in ("next", "return"):
                        m2 = o.st.ghost[c.memo]
                        o = Outcome("return", o.st.set_ghost(c.memo, V(m2.ty, z3.Store(m2.z, arg.z, True))),
                                    o.val if o.kind == "return" else self.lift(None))
                    outcomes.append(o)
            else:
                outcomes.extend(self.exec_block(body, st))
        else:
            if has_lru:
                raise Unsupported("lru_cache on a function whose contract declares no memo ghost", node)
            outcomes.extend(self.exec_block(body, st))
        n_paths = 0
        exits = [o.st.pc for o in outcomes if o.kind in ("next", "return")]
        if exits:
            ob = self.emit("cover-any", "some-normal-exit-reachable", node, st, z3.BoolVal(False), expect="sat")
            ob.alts = exits
        for o in outcomes:
            n_paths += 1
            if o.kind in ("next", "return"):
                self.check_normal_exit(c, o, entry, node)
            elif o.kind == "raise":
                self.check_exceptional_exit(c, o, entry, node)
            else:
                raise Unsupported(f"{o.kind} outside loop", node)
        if stub is not None:
            info = {"key": c.key, "file": "(refinement lemma over contracts: " + stub.strip().splitlines()[-1].strip() + ")",
                    "lines": [0, 0], "sha256": "", "is_async": False}
        else:
            info = dict(self.front.info(key))
        info.update(paths=n_paths, stmts=self.stats["stmts"], gen_s=round(time.time() - t0, 3),
                    contract=c.key, calls=sorted(self.called))
        obs = self.obligations
        self.current = None
        return obs, info

    def post_env(self, c, final, entry):
        env = dict(final.env)
        for nm in c.params:
            if nm not in c.modifies and nm in entry.env:
                env[nm] = entry.env[nm]
        return env

    def check_spawned(self, st, node):
        """coroutines handed to asyncio.create_task start at the creator's next suspension point (or return):
        their preconditions are proof obligations there"""
        for cc, cargs, ckw, site in st.meta.get("spawned", ()):
            bound = self.bind_params(cc, cargs, ckw, site)
            env = self.spec_env_for_call(cc, bound, st)
            pre = st.clone(env=dict(env))
            for i, r in enumerate(cc.requires):
                self.emit("pre@spawn", f"{cc.key}#req{i + 1}", site, st, self.spec(r, pre, env=env, old=pre, isolate=True),
                          note=r if isinstance(r, str) else "")
            # what the creator promises about the arguments it hands to the coroutine (its own names, `old(...)` for
            # their values at entry; the spawned call's arguments as spawn_<parameter>)
            extra = getattr(self.current, "spawn_ensures", {}).get(cc.key, ()) if self.current is not None else ()
            if extra:
                env2 = dict(st.env)
                env2.update({"spawn_" + k: v for k, v in bound.items() if isinstance(v, V)})
                for i, sp in enumerate(extra):
                    self.emit("spawn-args", f"{cc.key}#arg{i + 1}", site, st, self.spec(sp, st, env=env2, old=st.old), note=sp)
        return st.set_meta("spawned", ())

    def check_normal_exit(self, c, o, entry, node):
        final = self.check_spawned(o.st, node)
        # sidecar ghost code anchored at the normal exit of the function
        for gname, gexpr in getattr(c, "ghost_exit", ()):
            env0 = self.post_env(c, final, entry)
            r0 = o.val if o.kind == "return" and o.val is not None else self.lift(None)
            if c.returns is not None and c.returns is not T.NONE:
                r0 = self.coerce(r0, c.returns, node)
            gv = self.spec(gexpr, final, env=env0, old=entry, result=r0, want_bool=False)
            final = final.set_ghost(gname, self.coerce(gv, self.ghost_decl[gname]))
        res = o.val if o.kind == "return" and o.val is not None else self.lift(None)
        if c.returns is not None and c.returns is not T.NONE:
            res = self.coerce(res, c.returns, node)
        env = self.post_env(c, final, entry)
        if c.returns_expr is not None:
            want = self.spec(c.returns_expr, final, env=env, old=entry, want_bool=False)
            a, b = self.unify(res, want, node)
            self.emit("post", "returns_expr", node, final, self.equal(a, b, node), note=str(c.returns_expr))
        for i, e in enumerate(c.ensures):
            goal = self.spec(e, final, env=env, old=entry, result=res)
            self.emit("post", f"ens{i + 1}", node, final, goal, note=e if isinstance(e, str) else "")
        self.check_frame(c, final, entry, c.modifies, node, "frame")

    def check_exceptional_exit(self, c, o, entry, node):
        final, exc = o.st, o.val
        env = self.post_env(c, final, entry)
        matched = False
        for ename, spec in c.raises.items():
            cls = self.resolve_exc(ename, c)
            if issubclass(exc.cls, cls):
                matched = True
                if isinstance(spec, dict):
                    cond, eens = spec.get("cond", "True"), spec.get("ensures", [])
                    emods = spec.get("modifies")
                else:
                    cond, eens, emods = spec, [], None
                goal = self.spec(cond, final, env=env, old=entry)
                self.emit("raises", f"{cls.__name__}#cond", node, final, goal, note=str(cond))
                for i, e in enumerate(list(eens) + list(c.exc_ensures)):
                    self.emit("raises", f"{cls.__name__}#ens{i + 1}", node, final,
                              self.spec(e, final, env=env, old=entry), note=str(e))
                mods = emods if emods is not None else (
                    c.on_exc_modifies if c.on_exc_modifies is not None else c.modifies)
                self.check_frame(c, final, entry, mods, node, f"frame@{cls.__name__}")
                break
        if not matched:
            # the exception class is not allowed to escape: the path must be infeasible
            self.emit("no-escape", exc.cls.__name__, node, final, z3.BoolVal(False),
                      note=f"{exc.cls.__name__} must not escape {c.key}")

    def check_frame(self, c, final, entry, mods, node, kind):
        whole, locs = set(), collections.defaultdict(list)
        names = set()
        for m in mods:
            m = m.strip()
            if m.startswith("ghost:"):
                names.add(m[6:])
            elif "." in m:
                base, field = m.rsplit(".", 1)
                if base in self.classes:
                    whole.add((base, field))
                else:
                    bv = self.spec(base, entry, want_bool=False)
                    f = self.find_field(bv.ty.cls, field)
                    locs[(f[1].name, field)].append(bv.z)
            else:
                names.add(m)
        for hk, arr in final.heap.items():
            a0 = entry.heap[hk]
            if arr.eq(a0) or hk in whole:
                continue
            o = self.objT(hk[0]).fresh("o")
            if hk in locs:
                goal = z3.ForAll([o], z3.Implies(z3.And(*[o != b for b in locs[hk]]),
                                                 z3.Select(arr, o) == z3.Select(a0, o)))
            else:
                goal = arr == a0
            self.emit(kind, f"{hk[0]}.{hk[1]}", node, final, goal, note="nothing outside the frame changes")
        for g, v in final.ghost.items():
            if g in names or v.z.eq(entry.ghost[g].z):
                continue
            self.emit(kind, f"ghost:{g}", node, final, v.z == entry.ghost[g].z)
        for nm in c.captures:
            if nm in names or nm not in final.env or nm not in entry.env:
                continue
            v, v0 = final.env[nm], entry.env[nm]
            if v.ty in (T.FUN, T.PY) or v.z.eq(v0.z):
                continue
            self.emit(kind, f"captured:{nm}", node, final, v.z == v0.z)

    # ------------------------------------------------------------------ lemmas (obligations over contracts only)
    def verify_lemma(self, name):
        """a lemma is a Python function building (hyps, goal) pairs from the engine's vocabulary"""
        lem = self.lemmas[name]
        c = Contract("lemma:" + name, serves=lem["serves"])
        c.uses = tuple(lem.get("uses", ()))
        self.current = c
        self.obligations = []
        for label, hyps, goal in lem["build"](self):
            st = State(pc=tuple(hyps))
            self.emit("lemma", label, None, st, goal)
        obs = self.obligations
        self.current = None
        return obs, {"key": "lemma:" + name, "contract": "lemma:" + name, "file": lem.get("file", "contracts"),
                     "lines": [0, 0], "sha256": "", "paths": len(obs), "stmts": 0, "gen_s": 0.0, "calls": []}

    # ------------------------------------------------------------------ solving
    @staticmethod
    def _alpha_eq(f, g):
        """quantified formulas equal up to names of bound variables (z3 bodies are de Bruijn indexed)"""
        try:
            return (f.is_forall() == g.is_forall() and f.num_vars() == g.num_vars()
                    and all(f.var_sort(i).eq(g.var_sort(i)) for i in range(f.num_vars()))
                    and f.body().eq(g.body()))
        except Exception:
            return False

    def solve(self, ob, c, timeout_ms=20000):
        s = z3.Solver()
        # the budget is a deterministic resource limit (about 20 s / 120 s of work when measured here), so a
        # verdict does not flip when all cores are busy; the wall-clock timeout is only a backstop
        s.set("rlimit", int(timeout_ms * 1250))
        s.set("timeout", timeout_ms * 6)
        t0 = time.time()
        gs = str(ob.goal)
        if any(f.eq(ob.goal) or (z3.is_quantifier(f) and z3.is_quantifier(ob.goal) and self._alpha_eq(f, ob.goal))
               for f in ob.pc):
            # the goal is literally one of the hypotheses (up to renaming of bound variables)
            ob.result = {"status": "unsat", "time": 0.0, "backend": "syntactic"}
            return ob.result
        # phase 1: ground hypotheses only (sound: a subset). Quantified context can make z3 give up on goals
        # that follow from the ground facts of the path alone.
        from .stmt import StmtMixin
        qf = [f for f in ob.pc if not StmtMixin._has_quantifier(f)]
        if len(qf) < len(ob.pc):
            s0 = z3.Solver()
            s0.set("rlimit", 2000000)
            s0.add(*qf)
            s0.add(z3.Not(ob.goal))
            if s0.check() == z3.unsat:
                ob.result = {"status": "unsat", "time": round(time.time() - t0, 4),
                             "backend": "z3-" + z3.get_version_string() + "(ground hypotheses)"}
                return ob.result
        axioms = list(self.axioms_for(c, ob))
        # phase 2: the whole context, quantifiers instantiated by E-matching only. An `unsat` here is a proof;
        # anything else falls through to the default configuration (MBQI diverges on some ∃/∀ alternations that
        # pattern instantiation settles at once).
        s1 = z3.Solver()
        s1.set("smt.auto_config", False)
        s1.set("smt.mbqi", False)
        s1.set("rlimit", int(timeout_ms * 250))
        s1.set("timeout", timeout_ms * 2)
        s1.add(*axioms)
        s1.add(*ob.pc)
        s1.add(z3.Not(ob.goal))
        if s1.check() == z3.unsat:
            ob.result = {"status": "unsat", "time": round(time.time() - t0, 4),
                         "backend": "z3-" + z3.get_version_string() + "(e-matching)"}
            return ob.result
        for a in axioms:
            s.add(a)
        s.add(*ob.pc)
        s.add(z3.Not(ob.goal))
        r = s.check()
        dt = time.time() - t0
        res = {"status": str(r), "time": round(dt, 4), "backend": "z3-" + z3.get_version_string()}
        if r == z3.sat:
            try:
                m = s.model()
                res["model"] = m
                # z3's model-based quantifier instantiation can return bogus models on quantified array
                # formulas: a `sat` whose model falsifies a ground hypothesis (or satisfies the goal) is
                # downgraded to `unknown` (never reported as a violation)
                for f in list(ob.pc) + [z3.Not(ob.goal)]:
                    if z3.is_quantifier(f):
                        continue
                    if z3.is_false(m.eval(f, model_completion=True)):
                        res["status"], res["reason"], res["model"] = "unknown", "model does not validate", None
                        break
            except z3.Z3Exception:
                res["model"] = None
        elif r == z3.unknown:
            res["reason"] = s.reason_unknown()
            res["smt2"] = s.to_smt2()
        ob.result = res
        return res
